package replica

// C12: replicated writes are acknowledged only at quorum; reads survive replica loss.

import (
	"bytes"
	"context"
	"errors"

	"perkeep.org/internal/vmodel"
	"perkeep.org/internal/vrt"
	"perkeep.org/pkg/blob"
	"perkeep.org/pkg/blobserver"
)

type vStore struct {
	*vmodel.Store
}

func vMk(n int) ([]*vmodel.Store, []blobserver.Storage, []string) {
	var ms []*vmodel.Store
	var ss []blobserver.Storage
	var names []string
	for i := 0; i < n; i++ {
		m := &vmodel.Store{}
		ms = append(ms, m)
		ss = append(ss, m)
		names = append(names, "/r/")
	}
	return ms, ss, names
}

// K12a: ReceiveBlob succeeds only with >= min correct acknowledgements, fails otherwise.
func VK12Receive() {
	n := 1 + vrt.Choice(3+vrt.Tier())
	min := 1 + vrt.Choice(n)
	vrt.Schedules(n)
	ms, ss, names := vMk(n)
	good := 0
	for i := 0; i < n; i++ {
		switch vrt.Choice(3) {
		case 0:
			good++
		case 1:
			ms[i].Fault = func(op string) bool { return op == "receive" }
		default:
			ms[i].WrongSize = true
		}
	}
	sto := &replicaStorage{replicaPrefixes: names, replicas: ss, readPrefixes: names, readReplicas: ss, minWritesForSuccess: min}
	br := blob.VerifSmallRef(7)
	data := vrt.Bytes(2)
	sb, err := sto.ReceiveBlob(context.Background(), br, bytes.NewReader(data))
	if err == nil {
		stored := 0
		for i := 0; i < n; i++ {
			if ms[i].Fault == nil && !ms[i].WrongSize && ms[i].Has(br) && bytes.Equal(ms[i].Get(br), data) {
				stored++
			}
		}
		vrt.Assert(stored >= min, "success is reported only after at least min replicas stored the blob with the correct size")
		vrt.Assert(sb.Ref == br && sb.Size == 2, "acknowledged ref and size are the blob's")
	}
	if good < min {
		vrt.Assert(err != nil, "fewer than min correct writes is an error")
	} else {
		vrt.Assert(err == nil, "at least min correct writes is a success")
	}
}

// K12b: Fetch succeeds as long as one working read replica holds the blob.
func VK12Fetch() {
	n := 1 + vrt.Choice(3)
	ms, ss, names := vMk(n)
	br := blob.VerifSmallRef(7)
	data := vrt.Bytes(2)
	holders := 0
	for i := 0; i < n; i++ {
		switch vrt.Choice(3) {
		case 0: // holds it
			ms[i].Put(br, data)
			holders++
		case 1: // does not hold it
		default: // holds it but is down
			ms[i].Put(br, data)
			ms[i].Fault = func(op string) bool { return true }
		}
	}
	sto := &replicaStorage{replicaPrefixes: names, replicas: ss, readPrefixes: names, readReplicas: ss, minWritesForSuccess: n}
	rc, size, err := sto.Fetch(context.Background(), br)
	if holders > 0 {
		vrt.Assert(err == nil, "blob is fetchable while one working read replica holds it")
		if err == nil {
			var buf bytes.Buffer
			buf.ReadFrom(rc)
			vrt.Assert(size == 2 && bytes.Equal(buf.Bytes(), data), "fetched bytes and size are the blob's")
		}
	} else {
		vrt.Assert(err != nil, "blob held by no working replica is not fetched")
	}
}

// K12c: StatBlobs reports each present blob exactly once whatever the overlap.
func VK12Stat() {
	n := 1 + vrt.Choice(3)
	vrt.Schedules(n)
	ms, ss, names := vMk(n)
	refs := []blob.Ref{blob.VerifSmallRef(7), blob.VerifSmallRef(8)}
	present := []bool{false, false}
	for i := 0; i < n; i++ {
		for k := range refs {
			if vrt.Choice(2) == 1 {
				ms[i].Put(refs[k], []byte{1, 2, 3}[:k+1])
				present[k] = true
			}
		}
	}
	sto := &replicaStorage{replicaPrefixes: names, replicas: ss, readPrefixes: names, readReplicas: ss, minWritesForSuccess: n}
	seen := []int{0, 0}
	err := sto.StatBlobs(context.Background(), refs, func(sb blob.SizedRef) error {
		for k := range refs {
			if sb.Ref == refs[k] {
				seen[k]++
				vrt.Assert(int(sb.Size) == k+1, "stat reports the true size")
			}
		}
		return nil
	})
	vrt.Assert(err == nil, "stat succeeds")
	for k := range refs {
		if present[k] {
			vrt.Assert(seen[k] == 1, "a present blob is reported exactly once")
		} else {
			vrt.Assert(seen[k] == 0, "an absent blob is not reported")
		}
	}
}

// K12d: enumerate lists each blob once, ascending, whatever the overlap (sizes may disagree).
func VK12Enumerate() {
	n := 1 + vrt.Choice(3)
	vrt.Schedules(2)
	ms, ss, names := vMk(n)
	refs := []blob.Ref{blob.VerifSmallRef(7), blob.VerifSmallRef(8), blob.VerifSmallRef(9)}
	present := []bool{false, false, false}
	for i := 0; i < n; i++ {
		for k := range refs {
			if vrt.Choice(2) == 1 {
				// a replica may hold a truncated copy: sizes can disagree between replicas
				ms[i].Put(refs[k], []byte{1, 2, 3}[:1+(i+k)%2])
				present[k] = true
			}
		}
	}
	sto := &replicaStorage{replicaPrefixes: names, replicas: ss, readPrefixes: names, readReplicas: ss, minWritesForSuccess: n}
	limit := 1 + vrt.Choice(4)
	dest := make(chan blob.SizedRef, 10)
	err := sto.EnumerateBlobs(context.Background(), dest, "", limit)
	vrt.Assert(err == nil, "enumerate succeeds")
	var got []blob.Ref
	for sb := range dest {
		got = append(got, sb.Ref)
	}
	var want []blob.Ref
	for k := range refs {
		if present[k] && len(want) < limit {
			want = append(want, refs[k])
		}
	}
	vrt.Assert(len(got) == len(want), "enumerate lists each present blob once, up to the limit")
	for i := 0; i < len(got) && i < len(want); i++ {
		vrt.Assert(got[i] == want[i], "enumerate is ascending and duplicate-free")
	}
}

// K12e: RemoveBlobs reporting success means the blob is gone from every replica.
func VK12Remove() {
	n := 1 + vrt.Choice(3)
	vrt.Schedules(n)
	ms, ss, names := vMk(n)
	br := blob.VerifSmallRef(7)
	for i := 0; i < n; i++ {
		ms[i].Put(br, []byte{1})
		if vrt.Choice(2) == 1 {
			ms[i].Fault = func(op string) bool { return op == "remove" }
		}
	}
	sto := &replicaStorage{replicaPrefixes: names, replicas: ss, readPrefixes: names, readReplicas: ss, minWritesForSuccess: n}
	err := sto.RemoveBlobs(context.Background(), []blob.Ref{br})
	if err == nil {
		left := 0
		for i := 0; i < n; i++ {
			if ms[i].Has(br) {
				left++
			}
		}
		// known finding D20
		vrt.Assert(left == 0, "RemoveBlobs returning nil means no replica still holds the blob")
	}
	_ = errors.New
}

// K12f: distinct write and read sets (backends = [A], readBackends = [A, B] or [B], B an older
// replica that is only read): every read operation reflects the union of the READ replicas.
func VK12ReadSet() {
	vrt.Schedules(2)
	ms, ss, names := vMk(2)
	refs := []blob.Ref{blob.VerifSmallRef(7), blob.VerifSmallRef(8)}
	var readIdx []int
	if vrt.Bool() {
		readIdx = []int{0, 1}
	} else {
		readIdx = []int{1}
	}
	var rs []blobserver.Storage
	for _, i := range readIdx {
		rs = append(rs, ss[i])
	}
	present := []bool{false, false}
	for i := 0; i < 2; i++ {
		for k := range refs {
			if vrt.Choice(2) == 1 {
				ms[i].Put(refs[k], []byte{1, 2, 3}[:k+1])
				for _, j := range readIdx {
					if j == i {
						present[k] = true
					}
				}
			}
		}
	}
	sto := &replicaStorage{replicaPrefixes: names[:1], replicas: ss[:1], readPrefixes: names[:len(rs)], readReplicas: rs, minWritesForSuccess: 1}
	ctx := context.Background()
	seen := []int{0, 0}
	err := sto.StatBlobs(ctx, refs, func(sb blob.SizedRef) error {
		for k := range refs {
			if sb.Ref == refs[k] {
				seen[k]++
				vrt.Assert(int(sb.Size) == k+1, "stat reports the true size (read set)")
			}
		}
		return nil
	})
	vrt.Assert(err == nil, "stat succeeds (read set)")
	ch := make(chan blob.SizedRef, 8)
	eerr := sto.EnumerateBlobs(ctx, ch, "", 10)
	vrt.Assert(eerr == nil, "enumerate succeeds (read set)")
	listed := []int{0, 0}
	for sb := range ch {
		for k := range refs {
			if sb.Ref == refs[k] {
				listed[k]++
			}
		}
	}
	for k := range refs {
		_, _, ferr := sto.Fetch(ctx, refs[k])
		if present[k] {
			vrt.Assert(ferr == nil, "a blob held by a read replica is fetched")
			vrt.Assert(seen[k] == 1, "a blob held by a read replica is stat-ed exactly once")
			vrt.Assert(listed[k] == 1, "a blob held by a read replica is enumerated exactly once")
		} else {
			vrt.Assert(ferr != nil, "a blob held by no read replica is not fetched")
			vrt.Assert(seen[k] == 0, "a blob held by no read replica is not stat-ed")
			vrt.Assert(listed[k] == 0, "a blob held by no read replica is not enumerated")
		}
	}
	vrt.Cover("done")
}
