package blobserver

// C19 (helper kernel): EnumerateAll / EnumerateAllFrom, which feed the sync handler's full and
// validation passes, visit every blob of the source exactly once in order - also when the
// source answers with pages shorter than the requested limit (page-capped stores) - and stop at
// the first error of the callback or the source.

import (
	"context"

	"perkeep.org/internal/vmodel"
	"perkeep.org/internal/vrt"
	"perkeep.org/pkg/blob"
)

// vCapped answers EnumerateBlobs with at most max blobs per call.
type vCapped struct {
	*vmodel.Store
	max int
}

func (c vCapped) EnumerateBlobs(ctx context.Context, dest chan<- blob.SizedRef, after string, limit int) error {
	if limit > c.max {
		limit = c.max
	}
	return c.Store.EnumerateBlobs(ctx, dest, after, limit)
}

func VK19gEnumerateAll() {
	vrt.Schedules(2)
	blobs := vmodel.SmallBlobs(4)
	st := &vmodel.Store{}
	var present []int
	for _, i := range []int{2, 0, 3, 1} {
		if vrt.Bool() {
			st.Put(blobs[i].Ref, []byte(blobs[i].Data))
		}
	}
	for i := range blobs {
		if st.Has(blobs[i].Ref) {
			present = append(present, i)
		}
	}
	src := vCapped{st, 1 + vrt.Choice(3)} // page cap 1..3
	from := vrt.Choice(len(blobs) + 1)   // start after nothing or after blob from-1
	after := ""
	if from > 0 {
		after = blobs[from-1].Ref.String()
	}
	var got []int
	err := EnumerateAllFrom(context.Background(), src, after, func(sb blob.SizedRef) error {
		for i := range blobs {
			if blobs[i].Ref == sb.Ref {
				got = append(got, i)
				vrt.Assert(int(sb.Size) == len(blobs[i].Data), "every blob is visited with its size")
			}
		}
		return nil
	})
	vrt.Assert(err == nil, "enumerating a healthy source succeeds")
	var want []int
	for _, i := range present {
		if i >= from {
			want = append(want, i)
		}
	}
	vrt.Assert(len(got) == len(want), "every blob after the cursor is visited exactly once, however short the pages are")
	for k := range want {
		if k < len(got) {
			vrt.Assert(got[k] == want[k], "blobs are visited in ascending order")
		}
	}
	vrt.Cover("done")
}
