package server

// C19: asynchronous sync delivers every blob eventually and its queue is durable.

import (
	"context"
	"hash"
	"io"

	"perkeep.org/internal/vmodel"
	"perkeep.org/internal/vrt"
	"perkeep.org/pkg/blob"
	"perkeep.org/pkg/blobserver"
	"perkeep.org/pkg/constants"
)

// ---- model hash (see C02): digest = arbitrary function of the number of bytes written ----

var vHashWritten int
var vHashDigests [][]byte

func vInstallHash(maxLen int) {
	vHashWritten = 0
	vHashDigests = nil
	for k := 0; k <= maxLen; k++ {
		vHashDigests = append(vHashDigests, vrt.Bytes(28))
	}
	vrt.Stub("(*crypto/internal/fips140/sha256.Digest).Write", func(p []byte) (int, error) {
		vHashWritten += len(p)
		return len(p), nil
	})
	vrt.Stub("(*crypto/internal/fips140/sha256.Digest).Sum", func(in []byte) []byte {
		k := vHashWritten
		if k >= len(vHashDigests) {
			k = len(vHashDigests) - 1
		}
		return append(in, vHashDigests[k]...)
	})
	vrt.Stub("(*crypto/internal/fips140/sha256.Digest).Reset", func() { vHashWritten = 0 })
}

func vDigestMatches(br blob.Ref, n int) bool {
	ok := true
	for i := 0; i < 28; i++ {
		if vHashDigests[n][i] != br.VerifDigestByte(i) {
			ok = false
		}
	}
	return ok
}

// K19b: one copy step from a queue state: the row leaves the queue exactly when the
// destination acknowledged the right size after a digest-verified read.
func VK19bCopyStep() {
	n := 1 + vrt.Choice(2)
	vInstallHash(n)
	from, to, queue := &vmodel.Store{}, &vmodel.Store{}, &vmodel.KV{}
	br := blob.VerifRef(1, vrt.Bytes(28))
	data := vrt.Bytes(n)
	from.Put(br, data)
	sh := newSyncHandler("from", "to", from, to, queue)
	claimed := uint32(n)
	fault := vrt.Choice(6)
	switch fault {
	case 1:
		from.Fault = func(op string) bool { return op == "fetch" }
	case 2:
		claimed = uint32(n + 1) // the queue row / enumeration disagrees with the source size
	case 3:
		to.Fault = func(op string) bool { return op == "receive" }
	case 4:
		to.WrongSize = true
	}
	sb := blob.SizedRef{Ref: br, Size: claimed}
	err := sh.enqueue(sb)
	vrt.Assert(err == nil, "enqueue succeeds")
	_, qerr := queue.Get(br.String())
	vrt.Assert(qerr == nil, "an enqueued blob has a row in the persistent queue")
	matches := vDigestMatches(br, n)
	cerr := sh.copyBlob(context.Background(), sb)
	_, stillQueued := queue.Get(br.String())
	_, stillNeeded := sh.needCopy[br]
	delivered := to.Has(br)
	if cerr == nil {
		vrt.Cover("copied")
		vrt.Assert(fault == 0 || fault == 5, "a failed fetch/read/write is never reported as a successful copy")
		vrt.Assert(matches, "only digest-verified bytes are reported as copied")
		vrt.Assert(delivered && vSameBytes(to.Get(br), data), "after a successful copy the destination holds the blob, bit-identical")
		vrt.Assert(stillQueued != nil && !stillNeeded, "a successfully copied blob leaves the queue and the pending set")
	} else {
		vrt.Cover("failed")
		vrt.Assert(stillQueued == nil, "a blob whose copy failed stays in the persistent queue")
		vrt.Assert(stillNeeded, "a blob whose copy failed stays in the pending set")
		_, hasFail := sh.lastFail[br]
		vrt.Mech(hasFail, "a failed copy is recorded in lastFail")
	}
	if !matches {
		vrt.Assert(!delivered, "the destination never receives bytes that do not hash to the ref")
	}
	if (fault == 0 || fault == 5) && matches {
		vrt.Assert(cerr == nil, "a healthy copy of intact data succeeds")
	}
}

func vSameBytes(a, b []byte) bool {
	if len(a) != len(b) {
		return false
	}
	ok := true
	for i := range a {
		if a[i] != b[i] {
			ok = false
		}
	}
	return ok
}

// K19c/d: uploads, transient failures in the first round, restart over the same queue:
// everything pending is delivered once failures stop.
func VK19dEventualDelivery() {
	nb := 2
	// reads are intact in this scenario (corrupt reads are covered by K19b)
	vrt.Stub("(perkeep.org/pkg/blob.Ref).HashMatches", func(h hash.Hash) bool { return true })
	vrt.Stub("(*crypto/internal/fips140/sha256.Digest).Write", func(p []byte) (int, error) { return len(p), nil })
	vrt.Schedules(2)
	from, to, queue := &vmodel.Store{}, &vmodel.Store{}, &vmodel.KV{}
	sh := newSyncHandler("from", "to", from, to, queue)
	sh.copierPoolSize = 2
	var refs []blob.Ref
	var datas [][]byte
	for i := 0; i < nb; i++ {
		br := blob.VerifSmallRef(byte(10 + i))
		n := 2
		if i == 0 {
			n = vrt.Choice(3) // sizes 0..2: the empty blob is a blob like any other
		}
		d := vrt.Bytes(n)
		refs = append(refs, br)
		datas = append(datas, d)
		from.Put(br, d)
		// source upload notifies the sync handler
		_, err := sh.ReceiveBlob(context.Background(), br, &vCountReader{n: n})
		vrt.Assert(err == nil, "sync handler enqueues a received blob")
	}
	// round 1: one transient failure
	switch vrt.Choice(3) {
	case 0:
		to.Fault = vmodel.OneFault(2)
	case 1:
		from.Fault = vmodel.OneFault(2)
	}
	sh.runSync("queue", sh.enumeratePendingBlobs)
	to.Fault, from.Fault = nil, nil
	// restart at this moment: a new handler over the same persistent queue
	if vrt.Choice(2) == 1 {
		vrt.Cover("restart")
		sh = newSyncHandler("from", "to", from, to, queue)
		sh.copierPoolSize = 2
		err := sh.readQueueToMemory()
		vrt.Assert(err == nil, "queue reload succeeds")
	}
	for round := 0; round < 2; round++ {
		sh.runSync("queue", sh.enumeratePendingBlobs)
	}
	for i := range refs {
		vrt.Assert(to.Has(refs[i]) && vSameBytes(to.Get(refs[i]), datas[i]), "every uploaded blob is eventually at the destination, bit-identical")
	}
	vrt.Assert(len(queue.Keys) == 0, "the persistent queue is empty once everything is delivered")
	vrt.Assert(len(sh.needCopy) == 0, "nothing stays pending once everything is delivered")
}

type vCountReader struct{ n int }

func (r *vCountReader) Read(p []byte) (int, error) {
	if r.n == 0 {
		return 0, io.EOF
	}
	k := r.n
	if len(p) < k {
		k = len(p)
	}
	r.n -= k
	return k, nil
}

// K19a: the missing-at-destination merge over two ascending enumerations.
func VK19aListMissing() {
	mk := func(n int, base byte) []blob.SizedRef {
		var out []blob.SizedRef
		last := -1
		for i := 0; i < n; i++ {
			// ascending refs drawn from a small ordered family
			k := last + 1 + vrt.Choice(2)
			last = k
			out = append(out, blob.SizedRef{Ref: blob.VerifSmallRef(base + byte(k)), Size: uint32(vrt.Choice(2))})
		}
		return out
	}
	src, dst := mk(vrt.Choice(4), 10), mk(vrt.Choice(4), 10)
	srcch, dstch := make(chan blob.SizedRef, 8), make(chan blob.SizedRef, 8)
	for _, sb := range src {
		srcch <- sb
	}
	close(srcch)
	for _, sb := range dst {
		dstch <- sb
	}
	close(dstch)
	out := make(chan blob.SizedRef, 8)
	var mismatched []blob.Ref
	blobserver.ListMissingDestinationBlobs(out, func(br blob.Ref) { mismatched = append(mismatched, br) }, srcch, dstch)
	var got []blob.SizedRef
	for sb := range out {
		got = append(got, sb)
	}
	var want []blob.SizedRef
	var wantMis []blob.Ref
	for _, s := range src {
		found := false
		for _, d := range dst {
			if d.Ref == s.Ref {
				found = true
				if d.Size != s.Size {
					wantMis = append(wantMis, s.Ref)
				}
			}
		}
		if !found {
			want = append(want, s)
		}
	}
	vrt.Assert(len(got) == len(want), "missing list = source minus destination (count)")
	for i := 0; i < len(got) && i < len(want); i++ {
		vrt.Assert(got[i] == want[i], "missing list = source minus destination, in order")
	}
	vrt.Assert(len(mismatched) == len(wantMis), "size mismatches are reported exactly for common refs with different sizes")
}

// K19e: a blob of exactly the maximum size is copied; one byte more is refused.
type vAckDst struct{ *vmodel.Store }

func (d vAckDst) ReceiveBlob(ctx context.Context, br blob.Ref, src io.Reader) (blob.SizedRef, error) {
	d.Store.Refs = append(d.Store.Refs, br) // contents irrelevant here
	d.Store.Datas = append(d.Store.Datas, nil)
	return blob.SizedRef{Ref: br, Size: vAckSize}, nil
}

var vAckSize uint32

type vBigFrom struct {
	*vmodel.Store
	size uint32
}

func (f vBigFrom) Fetch(ctx context.Context, br blob.Ref) (io.ReadCloser, uint32, error) {
	return io.NopCloser(&vCountReader{n: int(f.size)}), f.size, nil
}

func VK19eMaxSize() {
	d := vrt.Bytes(28)
	vrt.Stub("(*crypto/internal/fips140/sha256.Digest).Write", func(p []byte) (int, error) { return len(p), nil })
	vrt.Stub("(*crypto/internal/fips140/sha256.Digest).Sum", func(in []byte) []byte { return append(in, d...) })
	br := blob.VerifRef(1, d)
	size := uint32(constants.MaxBlobSize) + uint32(vrt.Choice(2))
	vAckSize = size
	from, to, queue := vBigFrom{&vmodel.Store{}, size}, vAckDst{&vmodel.Store{}}, &vmodel.KV{}
	sh := newSyncHandler("from", "to", from, to, queue)
	sb := blob.SizedRef{Ref: br, Size: size}
	vrt.Assert(sh.enqueue(sb) == nil, "enqueue succeeds")
	err := sh.copyBlob(context.Background(), sb)
	if size == constants.MaxBlobSize {
		vrt.Assert(err == nil && to.Has(br), "a blob of exactly the maximum blob size is delivered")
	} else {
		vrt.Assert(err != nil, "a blob over the maximum blob size is not copied")
	}
}

// K19f: two sync destinations fed from one source: a queue failure of one handler during
// an upload must not keep the other handler from enqueueing the blob ("all registered
// hooks are run on each blob upload").
func VK19fTwoDestinations() {
	src := &vmodel.Store{}
	toA, toB := &vmodel.Store{}, &vmodel.Store{}
	qA, qB := &vmodel.KV{}, &vmodel.KV{}
	shA := newSyncHandler("src", "A", src, toA, qA)
	shB := newSyncHandler("src", "B", src, toB, qB)
	hub := blobserver.GetHub(src)
	hub.AddReceiveHook(shA.enqueue)
	hub.AddReceiveHook(shB.enqueue)
	vrt.Schedules(2)
	br := blob.VerifSmallRef(10)
	failing := vrt.Choice(3) // which queue fails its Set (2: none)
	if failing == 0 {
		qA.Fault = func(op string) bool { return op == "set" }
	} else if failing == 1 {
		qB.Fault = func(op string) bool { return op == "set" }
	}
	src.Put(br, []byte{1, 2})
	err := hub.NotifyBlobReceived(blob.SizedRef{Ref: br, Size: 2})
	if failing == 2 {
		vrt.Assert(err == nil, "healthy notification succeeds")
	} else {
		vrt.Assert(err != nil, "a failing hook's error is reported")
	}
	if failing != 0 {
		_, e := qA.Get(br.String())
		vrt.Assert(e == nil, "the healthy sync handler (A) has the blob in its persistent queue")
	}
	if failing != 1 {
		_, e := qB.Get(br.String())
		vrt.Assert(e == nil, "the healthy sync handler (B) has the blob in its persistent queue")
	}
}
