package search

// C09 harnesses: paging through search results neither skips nor repeats.

import (
	"context"
	"time"

	"perkeep.org/internal/vrt"
	"perkeep.org/pkg/blob"
	"perkeep.org/pkg/index"
	"perkeep.org/pkg/types/camtypes"
)

type vIndex struct {
	index.Interface
	c *index.Corpus
}

// like (*index.Index).EnumerateBlobMeta when a corpus is attached
func (x vIndex) EnumerateBlobMeta(ctx context.Context, fn func(camtypes.BlobMeta) bool) error {
	x.c.EnumerateBlobMeta(fn)
	return nil
}

func (vIndex) RLock()   {}
func (vIndex) RUnlock() {}

var vSigner = blob.VerifSmallRef(200)

// vTime: a symbolic instant around one of several epochs: pre-1970, 1970, 2001, far future;
// sub-second resolution (nanoseconds symbolic in a +-2000 window).
func vTime() time.Time {
	var base int64
	switch vrt.Choice(3) {
	case 0:
		base = 0 // straddles 1970-01-01: negative UnixNano below
	case 1:
		base = 1000000000 // 2001, 19-digit UnixNano
	default:
		base = -315446400 // 1960
	}
	return time.Unix(base+int64(vrt.Range(-2, 2)), int64(vrt.Range(0, 999)))
}

// world of n permanodes pn_i (concrete, ascending refs) each modified at a symbolic time.
func vWorld(n int, sameEpoch bool) (*Handler, []blob.Ref, []time.Time) {
	return vWorldK(n, sameEpoch, false)
}

var vAttr, vValue = "title", "x"

func vWorldK(n int, sameEpoch, tiny bool) (*Handler, []blob.Ref, []time.Time) {
	c := index.VerifNewCorpus()
	c.VerifSetSigner(vSigner, "KEY1")
	var refs []blob.Ref
	var times []time.Time
	var base int64
	if sameEpoch {
		switch vrt.Choice(2) {
		case 0:
			base = 0
		default:
			base = 1000000000
		}
	}
	for i := 0; i < n; i++ {
		pn := blob.VerifSmallRef(byte(10 + i))
		c.VerifAddBlobMeta(pn, 100, "permanode")
		var t time.Time
		if tiny {
			// 1..2-digit UnixNano, heavily tied: the token arithmetic stays trivial
			t = time.Unix(0, int64(vrt.Range(8, 11)))
		} else if sameEpoch {
			t = time.Unix(base+int64(vrt.Range(-1, 1)), int64(vrt.Range(0, 2)))
		} else {
			t = vTime()
		}
		err := c.VerifMergeClaim(camtypes.Claim{
			BlobRef: blob.VerifSmallRef(byte(100 + i)), Signer: vSigner, Permanode: pn,
			Date: t, Type: "set-attribute", Attr: vAttr, Value: vValue,
		})
		vrt.Assume(err == nil)
		refs = append(refs, pn)
		times = append(times, t)
	}
	h := &Handler{index: vIndex{c: c}, corpus: c}
	return h, refs, times
}

func vSort() SortType {
	if vrt.Choice(2) == 0 {
		return LastModifiedDesc
	}
	return CreatedDesc
}

// K09a: the continue token written for a page parses back to the same (time, ref).
func VK09aToken() {
	vAttr, vValue = "title", "x"
	h, refs, times := vWorld(1, false)
	q := &SearchQuery{Constraint: &Constraint{Permanode: &PermanodeConstraint{}}, Limit: 1, Sort: vSort()}
	res := &SearchResult{Blobs: []*SearchResultBlob{{Blob: refs[0]}}}
	q.setResultContinue(h.corpus, res)
	vrt.Assert(res.Continue != "", "a full page gets a continue token")
	t, br, ok := parsePermanodeContinueToken(res.Continue)
	vrt.Assert(ok, "the continue token written by the server parses")
	vrt.Assert(br == refs[0], "token ref round trip")
	vrt.Assert(t.Equal(times[0]), "token time round trip")
}

// K09b: the continue constraint accepts exactly the items strictly after the token
// position in the order the sorted enumeration uses.
func VK09bOrder() {
	vAttr, vValue = "title", "x"
	h, refs, times := vWorld(2, true)
	srt := vSort()
	for last := 0; last < 2; last++ {
		cc := &PermanodeContinueConstraint{Last: refs[last]}
		if srt == LastModifiedDesc {
			cc.LastMod = times[last]
		} else {
			cc.LastCreated = times[last]
		}
		pc := &PermanodeConstraint{Continue: cc}
		s := &search{h: h, q: &SearchQuery{}, res: new(SearchResult), loc: map[blob.Ref]camtypes.Location{}}
		for cand := 0; cand < 2; cand++ {
			got, err := pc.blobMatches(context.Background(), s, refs[cand], camtypes.BlobMeta{Ref: refs[cand], CamliType: "permanode"})
			vrt.Assert(err == nil, "continue constraint evaluates")
			// descending order: newer first; ties: larger ref first
			after := times[cand].Before(times[last]) || (times[cand].Equal(times[last]) && refs[cand].Less(refs[last]))
			vrt.Assert(got == after, "continue constraint accepts exactly the items after the token position")
		}
	}
}

// K09c: following continue tokens returns every permanode exactly once, in order.
func VK09cPaging() {
	vAttr, vValue = "title", "x"
	if vrt.Choice(2) == 1 {
		// permanodes found through their node type: another candidate source for the planner
		vAttr, vValue = "camliNodeType", "foo"
	}
	n := 3 + vrt.Tier()
	h, refs, times := vWorldK(n, true, true)
	srt := vSort()
	limit := 1 + vrt.Choice(2+vrt.Tier())
	var got []blob.Ref
	cont := ""
	// one constraint object reused for every page, the way an in-process caller does
	cons := &Constraint{Permanode: &PermanodeConstraint{Attr: vAttr, Value: vValue}}
	for page := 0; page < n+1; page++ {
		q := &SearchQuery{Constraint: cons, Limit: limit, Sort: srt, Continue: cont}
		res, err := h.Query(context.Background(), q)
		vrt.Assert(err == nil, "query succeeds")
		vrt.Assert(len(res.Blobs) <= limit, "page within limit")
		for _, b := range res.Blobs {
			got = append(got, b.Blob)
		}
		cont = res.Continue
		if cont == "" {
			break
		}
	}
	vrt.Assert(cont == "", "paging terminates within n+1 pages")
	vrt.Assert(len(got) == n, "every permanode returned exactly once (count)")
	// the scroll position lives in the token only: the caller's constraint is as it was, and a
	// second walk from the top with the same constraint starts where the first one did
	vrt.Assert(cons.Logical == nil && cons.Permanode != nil && cons.Permanode.Continue == nil && cons.Permanode.Attr == vAttr, "a paged query leaves the caller's constraint unchanged")
	res2, err2 := h.Query(context.Background(), &SearchQuery{Constraint: cons, Limit: limit, Sort: srt})
	vrt.Assert(err2 == nil && (n == 0 || (len(res2.Blobs) > 0 && len(got) > 0 && res2.Blobs[0].Blob == got[0])), "a second walk with the same constraint starts from the top again")
	for i := 0; i < len(got) && i < n; i++ {
		// position of got[i]
		k := -1
		for j := range refs {
			if refs[j] == got[i] {
				k = j
			}
		}
		vrt.Assert(k >= 0, "result is a permanode of the world")
		for j := 0; j < i; j++ {
			vrt.Assert(got[j] != got[i], "no result repeated")
		}
		if i > 0 {
			p := -1
			for j := range refs {
				if refs[j] == got[i-1] {
					p = j
				}
			}
			if p >= 0 && k >= 0 {
				ordered := times[p].After(times[k]) || (times[p].Equal(times[k]) && refs[k].Less(refs[p]))
				vrt.Assert(ordered, "results in descending (time, ref) order across pages")
			}
		}
	}
}

// K09d: an 'around' query returns a non-empty contiguous window of the full ordered
// list that contains the pivot and has at most Limit elements, or nothing when the
// pivot does not match.
func VK09dAround() {
	vAttr, vValue = "title", "x"
	if vrt.Choice(2) == 1 {
		vAttr, vValue = "camliNodeType", "foo"
	}
	n := 3 + vrt.Tier()
	h, refs, _ := vWorldK(n, true, true)
	var srt SortType
	switch vrt.Choice(3) {
	case 0:
		srt = LastModifiedDesc
	case 1:
		srt = CreatedDesc
	default:
		srt = BlobRefAsc // unsorted candidate source + post-sort window
	}
	limit := 1 + vrt.Choice(n)
	cons := func() *Constraint {
		return &Constraint{Permanode: &PermanodeConstraint{Attr: vAttr, Value: vValue}}
	}
	// one more permanode that exists but does not match the constraint
	other := blob.VerifSmallRef(240)
	h.corpus.VerifAddBlobMeta(other, 100, "permanode")
	oerr := h.corpus.VerifMergeClaim(camtypes.Claim{BlobRef: blob.VerifSmallRef(241), Signer: vSigner, Permanode: other,
		Date: time.Unix(1000000100, 0), Type: "set-attribute", Attr: vAttr, Value: "other"})
	vrt.Assume(oerr == nil)
	full, err := h.Query(context.Background(), &SearchQuery{Constraint: cons(), Limit: -1, Sort: srt})
	vrt.Assert(err == nil && len(full.Blobs) == n, "unlimited query lists every matching permanode")
	pk := vrt.Choice(n + 2)
	pivot := blob.VerifSmallRef(250) // not in the world
	if pk < n {
		pivot = refs[pk]
	} else if pk == n+1 {
		pivot = other
		if vrt.Bool() {
			limit = -1
		}
	}
	res, err := h.Query(context.Background(), &SearchQuery{Constraint: cons(), Limit: limit, Sort: srt, Around: pivot})
	vrt.Assert(err == nil, "around query succeeds")
	if pk >= n {
		vrt.Assert(len(res.Blobs) == 0, "around an absent or non-matching pivot returns nothing")
		vrt.Cover("no-pivot")
		return
	}
	vrt.Assert(len(res.Blobs) >= 1 && len(res.Blobs) <= limit, "around window is non-empty and within the limit")
	// locate the window in the full list
	start := -1
	for i := range full.Blobs {
		if len(res.Blobs) > 0 && full.Blobs[i].Blob == res.Blobs[0].Blob {
			start = i
		}
	}
	vrt.Assert(start >= 0 && start+len(res.Blobs) <= n, "around window starts inside the full list")
	hasPivot := false
	for i := range res.Blobs {
		if start >= 0 && start+i < n {
			vrt.Assert(full.Blobs[start+i].Blob == res.Blobs[i].Blob, "around window is contiguous in the full ordered list")
		}
		if res.Blobs[i].Blob == pivot {
			hasPivot = true
		}
	}
	vrt.Assert(hasPivot, "around window contains the pivot")
}

// K09e: the lazily sorted permanode caches behind the continuable sorts are invalidated by
// every received blob: a file's index rows arriving after a query change the creation time
// of the permanode whose camliContent it is, and the next query must be ordered by the new
// times.
func VK09eCacheInvalidation() {
	c := index.VerifNewCorpus()
	c.VerifSetSigner(vSigner, "KEY1")
	pns := []blob.Ref{blob.VerifSmallRef(10), blob.VerifSmallRef(11)}
	files := []blob.Ref{blob.VerifSmallRef(20), blob.VerifSmallRef(21)}
	seq := byte(100)
	for i, pn := range pns {
		c.VerifAddBlobMeta(pn, 100, "permanode")
		for _, av := range [][2]string{{"title", "x"}, {"camliContent", files[i].String()}} {
			seq++
			err := c.VerifMergeClaim(camtypes.Claim{BlobRef: blob.VerifSmallRef(seq), Signer: vSigner, Permanode: pn,
				Date: time.Unix(0, int64(vrt.Range(8, 11))), Type: "set-attribute", Attr: av[0], Value: av[1]}) // 1..2-digit UnixNano: the token arithmetic stays trivial
			vrt.Assume(err == nil)
		}
	}
	h := &Handler{index: vIndex{c: c}, corpus: c}
	srt := vSort()
	query := func() []blob.Ref {
		res, err := h.Query(context.Background(), &SearchQuery{Constraint: &Constraint{Permanode: &PermanodeConstraint{}}, Limit: -1, Sort: srt})
		vrt.Assert(err == nil, "the query succeeds")
		var out []blob.Ref
		if err == nil {
			for _, b := range res.Blobs {
				out = append(out, b.Blob)
			}
		}
		return out
	}
	first := query()
	vrt.Assert(len(first) == 2, "both permanodes are found")
	// the file behind one of the permanodes is received now: its time is far before or far
	// after every claim date
	which := vrt.Choice(2)
	when := []string{"1969-12-31T23%3A59%3A59Z", "2030-01-01T00%3A00%3A00Z"}[vrt.Choice(2)]
	fr := files[which].String()
	err := c.VerifAddBlobRows(files[which], map[string]string{
		"meta:" + fr:      "3|application/json; camliType=file",
		"fileinfo|" + fr:  "3|f.txt|text/plain|",
		"filetimes|" + fr: when,
	})
	vrt.Assert(err == nil, "the file's rows are merged")
	second := query()
	vrt.Assert(len(second) == 2, "both permanodes are still found")
	if len(second) == 2 {
		t0, ok0 := vTimeOf(c, srt, second[0])
		t1, ok1 := vTimeOf(c, srt, second[1])
		vrt.Assert(ok0 && ok1, "both permanodes have a time")
		vrt.Assert(!t0.Before(t1), "after a blob was received the results are ordered by the current times (newest first)")
		if t0.Equal(t1) {
			vrt.Assert(second[1].Less(second[0]), "ties are ordered by ref, descending")
		}
	}
	// paging one by one through a world where creation time (from the content file) and
	// modification time differ
	var paged []blob.Ref
	cont := ""
	for page := 0; page < 4; page++ {
		res, err := h.Query(context.Background(), &SearchQuery{Constraint: &Constraint{Permanode: &PermanodeConstraint{}}, Limit: 1, Sort: srt, Continue: cont})
		vrt.Assert(err == nil, "a page query succeeds")
		if err != nil {
			break
		}
		for _, b := range res.Blobs {
			paged = append(paged, b.Blob)
		}
		cont = res.Continue
		if cont == "" {
			break
		}
	}
	vrt.Assert(cont == "", "paging terminates")
	vrt.Assert(len(paged) == len(second), "paging returns every permanode exactly once (count)")
	for i := range second {
		if i < len(paged) {
			vrt.Assert(paged[i] == second[i], "paging returns the permanodes in the order of the unpaged result")
		}
	}
	vrt.Cover("done")
}

func vTimeOf(c *index.Corpus, srt SortType, pn blob.Ref) (time.Time, bool) {
	if srt == LastModifiedDesc {
		return c.PermanodeModtime(pn)
	}
	return c.PermanodeAnyTime(pn)
}
