package blobpacked

// C04 (read path and meta arithmetic): whatever mix of loose and packed state a blob is
// in -- including "in both", the state between the meta commit and the deletion of the
// loose blobs of a pack, or after a crash there -- clients see the same logical map.

import (
	"bytes"
	"context"
	"fmt"
	"io"

	"perkeep.org/internal/vmodel"
	"perkeep.org/internal/vrt"
	"perkeep.org/pkg/blob"
	"perkeep.org/pkg/blobserver"
	"perkeep.org/pkg/schema"
)

func vReadAll(rc io.Reader) []byte {
	var out []byte
	buf := make([]byte, 8)
	for i := 0; i < 16; i++ {
		n, err := rc.Read(buf)
		out = append(out, buf[:n]...)
		if err != nil || n == 0 {
			break
		}
	}
	return out
}

func vSame(a, b []byte) bool {
	if len(a) != len(b) {
		return false
	}
	ok := true
	for i := range a {
		if a[i] != b[i] {
			ok = false
		}
	}
	return ok
}

type vBlobState struct {
	ref     blob.Ref
	data    []byte
	inSmall bool
	packed  bool
}

// vState: small/large/meta satisfying the representation invariant: every b: row
// (size, zip, off) has large[zip][off:off+size] = content(b).
func vState() (*storage, []*vBlobState, *vmodel.Store, *vmodel.Store, *vmodel.KV) {
	small, large, meta := &vmodel.Store{}, &vmodel.Store{}, &vmodel.KV{}
	zipRef := blob.VerifSmallRef(200)
	zip := []byte("PKzipheader.")
	var bs []*vBlobState
	for i := 0; i < 2; i++ {
		b := &vBlobState{ref: blob.VerifSmallRef(byte(10 + i)), data: vrt.Bytes(2)}
		switch vrt.Choice(4) {
		case 0: // absent
		case 1:
			b.inSmall = true
		case 2:
			b.packed = true
		default: // in both: pack interrupted after the meta commit
			b.inSmall, b.packed = true, true
		}
		if b.inSmall {
			small.Put(b.ref, b.data)
		}
		if b.packed {
			off := len(zip)
			zip = append(zip, b.data...)
			zip = append(zip, 'x') // following zip bytes must never leak
			meta.Set(blobMetaPrefix+b.ref.String(), fmt.Sprintf("%d %s %d", len(b.data), zipRef, off))
		}
		bs = append(bs, b)
	}
	large.Put(zipRef, zip)
	s := &storage{small: small, large: large, meta: meta}
	s.init()
	return s, bs, small, large, meta
}

func vCheckMap(s *storage, bs []*vBlobState, what string) {
	ctx := context.Background()
	for _, b := range bs {
		present := b.inSmall || b.packed
		rc, size, err := s.Fetch(ctx, b.ref)
		if present {
			vrt.Assert(err == nil && int(size) == len(b.data) && vSame(vReadAll(rc), b.data), what+": a present blob is fetched byte for byte with its true size")
		} else {
			vrt.Assert(err != nil, what+": an absent blob is not fetched")
		}
		n := 0
		serr := s.StatBlobs(ctx, []blob.Ref{b.ref}, func(sb blob.SizedRef) error {
			n++
			vrt.Assert(int(sb.Size) == len(b.data), what+": stat reports the true size")
			return nil
		})
		vrt.Assert(serr == nil, what+": stat succeeds")
		if present {
			vrt.Assert(n == 1, what+": a present blob is stat-ed exactly once")
		} else {
			vrt.Assert(n == 0, what+": an absent blob is not stat-ed")
		}
	}
	ch := make(chan blob.SizedRef, 8)
	err := s.EnumerateBlobs(ctx, ch, "", 10)
	vrt.Assert(err == nil, what+": enumerate succeeds")
	var got []blob.SizedRef
	for sb := range ch {
		got = append(got, sb)
	}
	k := 0
	for _, b := range bs { // bs is in ascending ref order
		if b.inSmall || b.packed {
			vrt.Assert(k < len(got) && got[k].Ref == b.ref && int(got[k].Size) == len(b.data), what+": enumerate lists exactly the present blobs, each once, ascending")
			k++
		}
	}
	vrt.Assert(k == len(got), what+": enumerate lists nothing else")
}

func VK04bReadPath() {
	vrt.Schedules(2)
	s, bs, _, _, _ := vState()
	vCheckMap(s, bs, "read path")
	// ranged fetch of a present blob
	b := bs[0]
	if b.inSmall || b.packed {
		off, n := int64(vrt.Range(0, 3)), int64(vrt.Range(0, 4))
		rc, err := s.SubFetch(context.Background(), b.ref, off, n)
		if off > int64(len(b.data)) {
			vrt.Assert(err != nil, "ranged fetch beyond the blob is an error")
		} else {
			vrt.Assert(err == nil, "ranged fetch inside the blob succeeds")
			end := off + n
			if end > int64(len(b.data)) {
				end = int64(len(b.data))
			}
			vrt.Assert(vSame(vReadAll(rc), b.data[off:end]), "ranged fetch returns exactly the requested bytes of the blob")
		}
	}
}

func VK04bRemove() {
	vrt.Schedules(2)
	s, bs, _, _, _ := vState()
	which := vrt.Choice(2)
	err := s.RemoveBlobs(context.Background(), []blob.Ref{bs[which].ref})
	vrt.Assert(err == nil, "remove succeeds")
	bs[which].inSmall, bs[which].packed = false, false
	vCheckMap(s, bs, "after remove")
}

// K01f (blobpacked, non-file blobs): receive / duplicate receive / re-receive of a packed blob.
func VK04bReceive() {
	vrt.Schedules(2)
	// every blob is "not a file schema blob"
	vrt.Stub("perkeep.org/pkg/schema.BlobFromReader", vNotSchema)
	s, bs, small, _, _ := vState()
	which := vrt.Choice(2)
	b := bs[which]
	nSmall := len(small.Refs)
	src := &vEOFReader{r: bytes.NewReader(b.data)}
	sb, err := s.ReceiveBlob(context.Background(), b.ref, src)
	vrt.Assert(err == nil && sb.Ref == b.ref && int(sb.Size) == len(b.data), "receive acknowledges the true size")
	vrt.Assert(src.eof, "an upload is acknowledged only after its source was read to the end (its digest is verified at EOF), also for a blob that is already packed or loose")
	if b.packed || b.inSmall {
		vrt.Assert(len(small.Refs) == nSmall, "receiving a blob that is already present stores nothing new")
	}
	if !b.packed {
		b.inSmall = true
	}
	vCheckMap(s, bs, "after receive")
}

// vEOFReader notes whether io.EOF was handed out.
type vEOFReader struct {
	r   io.Reader
	eof bool
}

func (e *vEOFReader) Read(p []byte) (int, error) {
	n, err := e.r.Read(p)
	if err == io.EOF {
		e.eof = true
	}
	return n, err
}

var _ = blobserver.ErrNotImplemented

func vNotSchema(br blob.Ref, r io.Reader) (*schema.Blob, error) {
	return nil, fmt.Errorf("not a schema blob")
}

// K04a: the meta-row parsers invert the formats used by the packer and reject malformed rows.
func VK04aMetaRows() {
	hi := 999 // 3-digit symbolic numbers (4- and 5-digit runs did not finish within the thorough cap)
	size, off := uint32(vrt.Range(0, hi)), uint32(vrt.Range(0, hi))
	zipRef := blob.VerifSmallRef(200)
	row := fmt.Sprintf("%d %s %d", size, zipRef, off)
	m, err := parseMetaRow([]byte(row))
	vrt.Assert(err == nil && m.exists && m.size == size && m.largeRef == zipRef && m.largeOff == off, "parseMetaRow inverts the b: row format")
	sz, err := parseMetaRowSizeOnly([]byte(row))
	vrt.Assert(err == nil && sz == size, "parseMetaRowSizeOnly reads the size")
	// z: rows: two of the four numbers symbolic per run (all four in the thorough tier)
	zm := zipMetaInfo{zipSize: 1234, wholeRef: blob.VerifSmallRef(201), wholeSize: 56789, dataSize: 4321}
	zoff := uint64(777)
	switch vrt.Choice(2 + vrt.Tier()) {
	case 0:
		zm.zipSize, zm.dataSize = uint32(vrt.Range(0, hi)), uint32(vrt.Range(0, hi))
	case 1:
		zm.wholeSize, zoff = uint64(vrt.Range(0, hi)), uint64(vrt.Range(0, hi))
	default:
		zm.zipSize, zm.dataSize = uint32(vrt.Range(0, hi)), uint32(vrt.Range(0, hi))
		zm.wholeSize, zoff = uint64(vrt.Range(0, hi)), uint64(vrt.Range(0, hi))
	}
	zrow := zm.rowValue(zoff)
	z2, err := parseZipMetaRow([]byte(zrow))
	vrt.Assert(err == nil && z2.zipSize == zm.zipSize && z2.wholeRef == zm.wholeRef && z2.wholeSize == zm.wholeSize && z2.dataSize == zm.dataSize, "parseZipMetaRow inverts the z: row format")
	for _, bad := range []string{"", "12", "12 ", " 12 x 3", "12 sha224-zz 3", "12  " + zipRef.String() + " 3", "12 " + zipRef.String() + " 3 4"} {
		_, err := parseMetaRow([]byte(bad))
		vrt.Assert(err != nil, "a malformed b: row is rejected")
	}
}

// K04a': offsets of the zip parts of a whole file.
func VK04aWholeOffsets() {
	n := 1 + vrt.Choice(3)
	var zm []zipMetaInfo
	var want []uint64
	var total uint64
	for i := 0; i < n; i++ {
		ds := uint32(vrt.Range(1, 50))
		copies := 1 + vrt.Choice(2) // a zip part may exist twice (duplicate zips of identical files)
		for c := 0; c < copies; c++ {
			zm = append(zm, zipMetaInfo{zipRef: blob.VerifSmallRef(byte(100 + 10*i + c)), wholePartIndex: i, dataSize: ds})
		}
		want = append(want, total)
		total += uint64(ds)
	}
	want = append(want, total)
	got := wholeOffsets(zm)
	vrt.Assert(len(got) == len(want), "one offset per part plus the total size")
	for i := 0; i < len(got) && i < len(want); i++ {
		vrt.Assert(got[i] == want[i], "part offsets are the running sum of the first occurrences' data sizes")
	}
	vrt.Assert(hasDups(zm) == (len(zm) > n), "hasDups reports duplicates exactly when a part index repeats")
}
