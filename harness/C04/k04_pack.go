package blobpacked

// C04 (write path: the steps of a pack): the real packFile -> pack -> scanChunks -> writeAZip
// code runs over reference small/large/meta stores; the zip *container* is a model (a short
// opaque header per entry, stored entries, a trailer) because archive/zip and encoding/json
// are outside the encodable fragment. What is decided here is the order and the content of the
// pack's writes: zip stored in large, one meta batch (w:/z:/b: rows with the offsets the real
// countWriter measured), loose blobs removed, final whole-file row -- with a crash (or a
// transient failure) at any one lower-layer call, followed by a restart, a second pack attempt
// and the same client-visible checks.

import (
	"archive/zip"
	"context"
	"hash"
	"io"

	"perkeep.org/internal/vmodel"
	"perkeep.org/internal/vrt"
	"perkeep.org/pkg/blob"
	"perkeep.org/pkg/schema"
)

type vCrash struct{}

var (
	vZipUnder io.Writer
	vZipSeen  [][]byte
)

// vRefFromBytes: a collision-free model hash for zip blobs (same bytes, same ref).
func vRefFromBytes(b []byte) blob.Ref {
	for i, z := range vZipSeen {
		if vSame(z, b) {
			return blob.VerifSmallRef(byte(200 + i))
		}
	}
	vZipSeen = append(vZipSeen, append([]byte(nil), b...))
	return blob.VerifSmallRef(byte(200 + len(vZipSeen) - 1))
}

func vZipEntry(name string) (io.Writer, error) {
	vZipUnder.Write([]byte{'P', 'K', byte('0' + len(name)%10)}) // model of a local file header
	return vZipUnder, nil
}

func vZipStubs() {
	vZipSeen = nil
	vrt.Stub("archive/zip.NewWriter", func(w io.Writer) *zip.Writer { vZipUnder = w; return &zip.Writer{} })
	vrt.Stub("(*archive/zip.Writer).CreateHeader", func(zw *zip.Writer, fh *zip.FileHeader) (io.Writer, error) { return vZipEntry(fh.Name) })
	vrt.Stub("(*archive/zip.Writer).Create", func(zw *zip.Writer, name string) (io.Writer, error) { return vZipEntry(name) })
	vrt.Stub("(*archive/zip.Writer).Flush", func(zw *zip.Writer) error { return nil })
	vrt.Stub("(*archive/zip.Writer).Close", func(zw *zip.Writer) error {
		vZipUnder.Write([]byte("END")) // model of the central directory
		return nil
	})
	vrt.Stub("encoding/json.MarshalIndent", func(v any, prefix, indent string) ([]byte, error) {
		mf := v.(Manifest) // the model manifest carries what makes real manifests differ: part index and blob count
		return []byte{'{', 'm', byte('0' + mf.WholePartIndex), byte('0' + len(mf.DataBlobs)), '}'}, nil
	})
	vrt.Stub("runtime.Stack", func(buf []byte, all bool) int { return 0 }) // check() logs a stack before it panics
	vrt.Stub("perkeep.org/pkg/blob.RefFromBytes", vRefFromBytes)
	vrt.Stub("perkeep.org/pkg/blob.RefFromHash", func(h hash.Hash) blob.Ref { return blob.VerifSmallRef(150) })
	vrt.Stub("perkeep.org/pkg/schema.parseSuperset", schema.VerifParseSuperset)
	vrt.Stub("perkeep.org/pkg/schema.BlobFromReader", schema.VerifBlobFromReader)
}

// vRunPack runs the real packFile; a vCrash panic raised by a lower layer ends it the way a
// process crash would (nothing after the crashing call is executed).
func vRunPack(s *storage, fileRef blob.Ref) (crashed bool, err error) {
	defer func() {
		if e := recover(); e != nil {
			if _, ok := e.(vCrash); ok {
				crashed = true
				return
			}
			panic(e)
		}
	}()
	err = s.packFile(context.Background(), fileRef)
	return false, err
}

const vFileBody = "{f}"

// vPackWorld: a file of nchunks data chunks (1..2 symbolic bytes each) and its schema blob, all
// loose in small, plus an unrelated loose blob; bs is in ascending ref order.
func vPackWorld(nchunks int) (*vmodel.Store, *vmodel.Store, *vmodel.KV, []*vBlobState, blob.Ref, []byte) {
	small, large, meta := &vmodel.Store{}, &vmodel.Store{}, &vmodel.KV{}
	var bs []*vBlobState
	other := &vBlobState{ref: blob.VerifSmallRef(5), data: []byte("o"), inSmall: true}
	bs = append(bs, other)
	var parts []*schema.BytesPart
	var whole []byte
	for i := 0; i < nchunks; i++ {
		b := &vBlobState{ref: blob.VerifSmallRef(byte(10 + i)), data: vrt.Bytes(1 + vrt.Choice(2)), inSmall: true}
		bs = append(bs, b)
		parts = append(parts, &schema.BytesPart{Size: uint64(len(b.data)), BlobRef: b.ref})
		whole = append(whole, b.data...)
	}
	fileRef := blob.VerifSmallRef(30)
	bs = append(bs, &vBlobState{ref: fileRef, data: []byte(vFileBody), inSmall: true})
	schema.VerifSchemaByBody = map[string]*schema.Blob{vFileBody: schema.VerifNewBlob(fileRef, schema.VerifBlobDesc{Type: "file", Parts: parts})}
	for _, b := range bs {
		small.Put(b.ref, b.data)
	}
	return small, large, meta, bs, fileRef, whole
}

// vZipMaxFor: the zip size limit under which writeAZip's estimate admits 2 data bytes per zip:
// one 2-byte chunk or two 1-byte chunks (so that small files exercise multi-zip packs; a limit
// below the largest chunk would make the real packer loop forever, which no real file reaches:
// chunks are at most 1 MiB and the limit is 16 MiB).
func vZipMaxFor() int {
	return zipFixedOverhead + zipPerEntryOverhead + (len(vFileBody) + zipPerEntryOverhead) + 2 + (&Manifest{}).approxSerializedSize()
}

func vReadAllErr(rc io.Reader) ([]byte, error) {
	var out []byte
	buf := make([]byte, 8)
	for i := 0; i < 16; i++ {
		n, err := rc.Read(buf)
		out = append(out, buf[:n]...)
		if err != nil {
			return out, err
		}
	}
	return out, nil
}

func vPacked(meta *vmodel.KV, br blob.Ref) bool {
	for _, k := range meta.Keys {
		if k == blobMetaPrefix+br.String() {
			return true
		}
	}
	return false
}

// vCheckPackedState: after a pack that reported success.
func vCheckPackedState(s *storage, small, large *vmodel.Store, meta *vmodel.KV, bs []*vBlobState, whole []byte, zipMax int) {
	for _, b := range bs[1:] {
		vrt.Assert(vPacked(meta, b.ref), "after a successful pack every chunk and the schema blob have a b: row")
		vrt.Assert(!small.Has(b.ref), "after a successful pack the loose copies are gone")
	}
	vrt.Assert(small.Has(bs[0].ref) && !vPacked(meta, bs[0].ref), "an unrelated loose blob is left alone")
	for i, z := range large.Datas {
		vrt.Assert(len(z) <= zipMax, "every zip produced is within the zip size limit")
		vrt.Assert(vRefFromBytes(z) == large.Refs[i], "every zip is stored under the ref of its bytes")
	}
	off := vrt.Choice(len(whole) + 1) // whole-file reads from every offset, zip boundaries and the end included
	rc, size, err := s.OpenWholeRef(blob.VerifSmallRef(150), int64(off))
	vrt.Assert(err == nil && size == int64(len(whole)), "the whole file is served from the zips with its true size")
	if err == nil {
		got, rerr := vReadAllErr(rc)
		vrt.Assert(rerr == nil || rerr == io.EOF, "a whole-file read from any offset ends cleanly")
		vrt.Assert(vSame(got, whole[off:]), "the whole file read from the zips' first entries is the file content from the offset on")
	}
}

func vPackSteps(nchunks int, faultMode bool) {
	vrt.Schedules(2)
	vZipStubs()
	small, large, meta, bs, fileRef, whole := vPackWorld(nchunks)
	s := &storage{small: small, large: large, meta: meta}
	s.init()
	zipMax := 1 << 20
	if vrt.Choice(2) == 1 {
		zipMax = vZipMaxFor() // multi-zip
		vrt.Cover("small zip limit")
	}
	s.forceMaxZipBlobSize = zipMax
	nOps := 6 + 4*nchunks
	if faultMode {
		nOps = 30
	}
	k := vrt.Choice(nOps + 1) // the k-th counted lower-layer call crashes / fails; nOps = none
	c, armed, hit := 0, true, false
	fault := func(op string) bool {
		if !armed {
			return false
		}
		if !faultMode && op != "receive" && op != "remove" && op != "commit" && op != "set" && op != "delete" {
			return false // a crash at a read is a crash before the next write
		}
		c++
		if c-1 != k {
			return false
		}
		hit = true
		if faultMode {
			return true
		}
		panic(vCrash{})
	}
	small.Fault, large.Fault, meta.Fault = fault, fault, fault
	crashed, err := vRunPack(s, fileRef)
	armed = false
	vrt.Assert(c <= nOps, "the fault/crash positions cover every lower-layer call of the pack")
	if !hit {
		vrt.Cover("pack without fault")
		vrt.Assert(!crashed && err == nil, "a pack over healthy stores succeeds")
		vrt.Assert(len(large.Refs) >= 1, "a pack stores at least one zip")
		if zipMax < 1<<20 && len(whole) > 2 {
			vrt.Assert(len(large.Refs) >= 2, "with a small zip limit the file is spread over several zips")
			vrt.Cover("multi-zip")
		}
	}
	if crashed {
		vrt.Cover("crashed")
	}
	if hit && !crashed && err != nil {
		vrt.Cover("pack failed")
	}
	// restart on whatever state the pack left
	s2 := &storage{small: small, large: large, meta: meta, forceMaxZipBlobSize: zipMax}
	s2.init()
	vCheckMap(s2, bs, "after a pack (crash/fault at any step, restart)")
	if !hit || (!crashed && err == nil) {
		if !(hit && faultMode) { // a failed loose-blob removal is tolerated by design (logged)
			vCheckPackedState(s2, small, large, meta, bs, whole, zipMax)
		}
		return
	}
	// second attempt on the partial state
	_, err2 := vRunPack(s2, fileRef)
	s3 := &storage{small: small, large: large, meta: meta, forceMaxZipBlobSize: zipMax}
	s3.init()
	vCheckMap(s3, bs, "after re-packing a partially packed file")
	if err2 == nil {
		vrt.Cover("repacked")
		vCheckPackedState(s3, small, large, meta, bs, whole, zipMax)
	}
}

func VK04cPackCrash1() { vPackSteps(1, false) }
func VK04cPackCrash2() { vPackSteps(2, false) }
func VK04cPackFault2() { vPackSteps(2, true) }
