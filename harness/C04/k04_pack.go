package blobpacked

// C04 (write path: the steps of a pack): the real packFile -> pack -> scanChunks -> writeAZip
// code runs over reference small/large/meta stores; the zip *container* is a model (a short
// opaque header per entry, stored entries, a trailer) because archive/zip and encoding/json
// are outside the encodable fragment. What is decided here is the order and the content of the
// pack's writes: zip stored in large, one meta batch (w:/z:/b: rows with the offsets the real
// countWriter measured), loose blobs removed, final whole-file row -- with a crash (or a
// transient failure) at any one lower-layer call, followed by a restart, a second pack attempt
// and the same client-visible checks.

import (
	"archive/zip"
	"bytes"
	"context"
	"encoding/json"
	"hash"
	"io"
	"time"

	"perkeep.org/internal/vmodel"
	"perkeep.org/internal/vrt"
	"perkeep.org/pkg/blob"
	"perkeep.org/pkg/schema"
	"perkeep.org/pkg/sorted"
)

type vCrash struct{}

var (
	vZipUnder io.Writer
	vZipSeen  [][]byte
)

// vZipRefDesc: zip refs in creation order ascend or (vZipRefDesc) descend, so that the enumeration
// order of the large store is not always the part order.
var vZipRefDesc bool

func vZipRefOf(i int) blob.Ref {
	if vZipRefDesc {
		return blob.VerifSmallRef(byte(230 - i))
	}
	return blob.VerifSmallRef(byte(200 + i))
}

// vRefFromBytes: a collision-free model hash for zip blobs (same bytes, same ref).
func vRefFromBytes(b []byte) blob.Ref {
	for i, z := range vZipSeen {
		if vSame(z, b) {
			return vZipRefOf(i)
		}
	}
	vZipSeen = append(vZipSeen, append([]byte(nil), b...))
	return vZipRefOf(len(vZipSeen) - 1)
}

// The model zip container. Writing: every entry is a 3-byte opaque header followed by the stored
// bytes, the central directory is a 3-byte trailer. What a real zip says about itself (entry
// names, data offsets, sizes, the JSON manifest) is kept in a registry keyed by the zip's bytes:
// reading a blob with exactly these bytes gives that description back, any other blob is not a zip.
type vZipEnt struct {
	name      string
	off, size int64
}

type vZipDesc struct {
	bytes []byte
	ents  []vZipEnt
	mf    Manifest
}

type vZipFile struct {
	f    *zip.File
	desc *vZipDesc
	ent  int
}

var (
	vZipCur   *vZipDesc
	vZips     []*vZipDesc
	vZipFiles []vZipFile
	vManiCur  *vZipDesc
)

func vZipEndEntry() {
	if n := len(vZipCur.ents); n > 0 {
		vZipCur.ents[n-1].size = vZipUnder.(*countWriter).n - vZipCur.ents[n-1].off
	}
}

func vZipEntry(name string) (io.Writer, error) {
	vZipEndEntry()
	vZipUnder.Write([]byte{'P', 'K', byte('0' + len(name)%10)}) // model of a local file header
	vZipCur.ents = append(vZipCur.ents, vZipEnt{name: name, off: vZipUnder.(*countWriter).n})
	return vZipUnder, nil
}

func vZipInfo(f *zip.File) (*vZipDesc, int) {
	for _, zf := range vZipFiles {
		if zf.f == f {
			return zf.desc, zf.ent
		}
	}
	panic("verif: unknown zip.File")
}

func vZipNewReader(r io.ReaderAt, size int64) (*zip.Reader, error) {
	buf := make([]byte, size)
	if _, err := r.ReadAt(buf, 0); err != nil && err != io.EOF {
		return nil, err
	}
	for _, d := range vZips {
		if vSame(d.bytes, buf) {
			zr := &zip.Reader{}
			for i, e := range d.ents {
				f := &zip.File{FileHeader: zip.FileHeader{Name: e.name, UncompressedSize64: uint64(e.size)}}
				zr.File = append(zr.File, f)
				vZipFiles = append(vZipFiles, vZipFile{f, d, i})
			}
			return zr, nil
		}
	}
	return nil, zip.ErrFormat
}

func vZipStubs() {
	vZipSeen, vZips, vZipFiles, vZipCur, vManiCur, vZipRefDesc = nil, nil, nil, nil, nil, false
	vrt.Stub("archive/zip.NewWriter", func(w io.Writer) *zip.Writer {
		vZipUnder, vZipCur = w, &vZipDesc{}
		return &zip.Writer{}
	})
	vrt.Stub("(*archive/zip.Writer).CreateHeader", func(zw *zip.Writer, fh *zip.FileHeader) (io.Writer, error) { return vZipEntry(fh.Name) })
	vrt.Stub("(*archive/zip.Writer).Create", func(zw *zip.Writer, name string) (io.Writer, error) { return vZipEntry(name) })
	vrt.Stub("(*archive/zip.Writer).Flush", func(zw *zip.Writer) error { return nil })
	vrt.Stub("(*archive/zip.Writer).Close", func(zw *zip.Writer) error {
		vZipEndEntry()
		vZipUnder.Write([]byte("END")) // model of the central directory
		vZipCur.bytes = append([]byte(nil), vZipUnder.(*countWriter).w.(*bytes.Buffer).Bytes()...)
		vZips = append(vZips, vZipCur)
		return nil
	})
	vrt.Stub("encoding/json.MarshalIndent", func(v any, prefix, indent string) ([]byte, error) {
		mf := v.(Manifest) // the model manifest carries what makes real manifests differ: part index and blob count
		vZipCur.mf = mf
		return []byte{'{', 'm', byte('0' + mf.WholePartIndex), byte('0' + len(mf.DataBlobs)), '}'}, nil
	})
	vrt.Stub("archive/zip.NewReader", vZipNewReader)
	vrt.Stub("(*archive/zip.File).DataOffset", func(f *zip.File) (int64, error) {
		d, i := vZipInfo(f)
		return d.ents[i].off, nil
	})
	vrt.Stub("(*archive/zip.File).Open", func(f *zip.File) (io.ReadCloser, error) {
		vManiCur, _ = vZipInfo(f)
		return io.NopCloser(bytes.NewReader(nil)), nil
	})
	vrt.Stub("(*encoding/json.Decoder).Decode", func(dec *json.Decoder, v any) error {
		*(v.(*Manifest)) = vManiCur.mf
		return nil
	})
	vrt.Stub("time.NewTicker", func(d time.Duration) *time.Ticker { return &time.Ticker{C: make(chan time.Time)} })
	vrt.Stub("(*time.Ticker).Stop", func(t *time.Ticker) {})
	vrt.Stub("runtime.Stack", func(buf []byte, all bool) int { return 0 }) // check() logs a stack before it panics
	vrt.Stub("perkeep.org/pkg/blob.RefFromBytes", vRefFromBytes)
	vrt.Stub("perkeep.org/pkg/blob.RefFromHash", func(h hash.Hash) blob.Ref { return blob.VerifSmallRef(150) })
	vrt.Stub("perkeep.org/pkg/schema.parseSuperset", schema.VerifParseSuperset)
	vrt.Stub("perkeep.org/pkg/schema.BlobFromReader", schema.VerifBlobFromReader)
}

// vRunPack runs the real packFile; a vCrash panic raised by a lower layer ends it the way a
// process crash would (nothing after the crashing call is executed).
func vRunPack(s *storage, fileRef blob.Ref) (crashed bool, err error) {
	defer func() {
		if e := recover(); e != nil {
			if _, ok := e.(vCrash); ok {
				crashed = true
				return
			}
			panic(e)
		}
	}()
	err = s.packFile(context.Background(), fileRef)
	return false, err
}

const vFileBody = "{f}"

// vEOFChoice: explore both reader behaviours of the large store (the crash entries only, to keep
// the other entries within the quick budget).
var vEOFChoice bool

// vPackWorld: a file of nchunks data chunks (1..2 symbolic bytes each) and its schema blob, all
// loose in small, plus an unrelated loose blob; bs is in ascending ref order.
func vPackWorld(nchunks int) (*vmodel.Store, *vmodel.Store, *vmodel.KV, []*vBlobState, blob.Ref, []byte) {
	small, large, meta := &vmodel.Store{}, &vmodel.Store{}, &vmodel.KV{}
	if vEOFChoice {
		large.EOFWithData = vrt.Bool() // the large store's readers may deliver io.EOF with the last bytes
	}
	var bs []*vBlobState
	other := &vBlobState{ref: blob.VerifSmallRef(5), data: []byte("o"), inSmall: true}
	bs = append(bs, other)
	var parts []*schema.BytesPart
	var whole []byte
	for i := 0; i < nchunks; i++ {
		b := &vBlobState{ref: blob.VerifSmallRef(byte(10 + i)), data: vrt.Bytes(1 + vrt.Choice(2)), inSmall: true}
		bs = append(bs, b)
		parts = append(parts, &schema.BytesPart{Size: uint64(len(b.data)), BlobRef: b.ref})
		whole = append(whole, b.data...)
	}
	fileRef := blob.VerifSmallRef(30)
	bs = append(bs, &vBlobState{ref: fileRef, data: []byte(vFileBody), inSmall: true})
	schema.VerifSchemaByBody = map[string]*schema.Blob{vFileBody: schema.VerifNewBlob(fileRef, schema.VerifBlobDesc{Type: "file", Parts: parts})}
	for _, b := range bs {
		small.Put(b.ref, b.data)
	}
	return small, large, meta, bs, fileRef, whole
}

// vZipMaxFor: the zip size limit under which writeAZip's estimate admits 2 data bytes per zip:
// one 2-byte chunk or two 1-byte chunks (so that small files exercise multi-zip packs; a limit
// below the largest chunk would make the real packer loop forever, which no real file reaches:
// chunks are at most 1 MiB and the limit is 16 MiB).
func vZipMaxFor() int {
	return zipFixedOverhead + zipPerEntryOverhead + (len(vFileBody) + zipPerEntryOverhead) + 2 + (&Manifest{}).approxSerializedSize()
}

func vReadAllErr(rc io.Reader) ([]byte, error) {
	var out []byte
	buf := make([]byte, 8)
	for i := 0; i < 16; i++ {
		n, err := rc.Read(buf)
		out = append(out, buf[:n]...)
		if err != nil {
			return out, err
		}
	}
	return out, nil
}

func vPacked(meta *vmodel.KV, br blob.Ref) bool {
	for _, k := range meta.Keys {
		if k == blobMetaPrefix+br.String() {
			return true
		}
	}
	return false
}

// vCheckPackedState: after a pack that reported success.
func vCheckPackedState(s *storage, small, large *vmodel.Store, meta *vmodel.KV, bs []*vBlobState, whole []byte, zipMax int) {
	for _, b := range bs[1:] {
		vrt.Assert(vPacked(meta, b.ref), "after a successful pack every chunk and the schema blob have a b: row")
		vrt.Assert(!small.Has(b.ref), "after a successful pack the loose copies are gone")
	}
	vrt.Assert(small.Has(bs[0].ref) && !vPacked(meta, bs[0].ref), "an unrelated loose blob is left alone")
	for i, z := range large.Datas {
		vrt.Assert(len(z) <= zipMax, "every zip produced is within the zip size limit")
		vrt.Assert(vRefFromBytes(z) == large.Refs[i], "every zip is stored under the ref of its bytes")
	}
	vCheckPackedStateReads(s, whole)
}

func vCheckPackedStateReads(s *storage, whole []byte) {
	off := vrt.Choice(len(whole) + 1) // whole-file reads from every offset, zip boundaries and the end included
	rc, size, err := s.OpenWholeRef(blob.VerifSmallRef(150), int64(off))
	vrt.Assert(err == nil && size == int64(len(whole)), "the whole file is served from the zips with its true size")
	if err == nil {
		got, rerr := vReadAllErr(rc)
		vrt.Assert(rerr == nil || rerr == io.EOF, "a whole-file read from any offset ends cleanly")
		vrt.Assert(vSame(got, whole[off:]), "the whole file read from the zips' first entries is the file content from the offset on")
	}
}

// vReindexCheck: rebuild the meta index from the zips alone (the real storage.reindex) and check
// the client-visible map again; complete says that every zip of the file is known to be in large.
func vReindexCheck(small, large *vmodel.Store, oldMeta *vmodel.KV, bs []*vBlobState, whole []byte, zipMax int, complete, compareRows bool) {
	s := &storage{small: small, large: large, meta: oldMeta, forceMaxZipBlobSize: zipMax}
	s.init()
	newMeta := &vmodel.KV{}
	err := s.reindex(context.Background(), func() (sorted.KeyValue, error) { return newMeta, nil })
	vrt.Assert(err == nil, "rebuilding the meta index from the zips succeeds")
	if err != nil {
		return
	}
	vrt.Cover("reindexed")
	vCheckMap(s, bs, "after rebuilding the meta index from the zips")
	if complete {
		vCheckPackedStateReads(s, whole)
	} else {
		rc, _, err := s.OpenWholeRef(blob.VerifSmallRef(150), 0)
		if err == nil {
			got, rerr := vReadAllErr(rc)
			vrt.Assert(rerr != nil && rerr != io.EOF || vSame(got, whole), "a whole-file read over an incomplete set of zips fails or returns the file, never other bytes")
		}
	}
	if compareRows {
		vrt.Assert(len(newMeta.Keys) == len(oldMeta.Keys), "the rebuilt meta index has the same rows as the one the pack wrote (count)")
		for i := 0; i < len(newMeta.Keys) && i < len(oldMeta.Keys); i++ {
			if newMeta.Keys[i] == blobMetaPrefix+bs[len(bs)-1].ref.String() {
				// the file schema blob is in every zip of its file: either copy is a correct location
				vrt.Assert(newMeta.Keys[i] == oldMeta.Keys[i], "the rebuilt meta index has the same rows as the one the pack wrote")
				continue
			}
			vrt.Assert(newMeta.Keys[i] == oldMeta.Keys[i] && newMeta.Vals[i] == oldMeta.Vals[i], "the rebuilt meta index has the same rows as the one the pack wrote")
		}
	}
}

func vPackSteps(nchunks int, faultMode, reindex bool) {
	vrt.Schedules(2)
	vZipStubs()
	small, large, meta, bs, fileRef, whole := vPackWorld(nchunks)
	s := &storage{small: small, large: large, meta: meta}
	s.init()
	if reindex {
		vZipRefDesc = vrt.Choice(2) == 1
	}
	zipMax := 1 << 20
	if vrt.Choice(2) == 1 {
		zipMax = vZipMaxFor() // multi-zip
		vrt.Cover("small zip limit")
	}
	s.forceMaxZipBlobSize = zipMax
	nOps := 6 + 4*nchunks
	if faultMode {
		nOps = 30
	}
	k := vrt.Choice(nOps + 1) // the k-th counted lower-layer call crashes / fails; nOps = none
	c, armed, hit := 0, true, false
	fault := func(op string) bool {
		if !armed {
			return false
		}
		if !faultMode && op != "receive" && op != "remove" && op != "commit" && op != "set" && op != "delete" {
			return false // a crash at a read is a crash before the next write
		}
		c++
		if c-1 != k {
			return false
		}
		hit = true
		if faultMode {
			return true
		}
		panic(vCrash{})
	}
	small.Fault, large.Fault, meta.Fault = fault, fault, fault
	crashed, err := vRunPack(s, fileRef)
	armed = false
	vrt.Assert(c <= nOps, "the fault/crash positions cover every lower-layer call of the pack")
	if !hit {
		vrt.Cover("pack without fault")
		vrt.Assert(!crashed && err == nil, "a pack over healthy stores succeeds")
		vrt.Assert(len(large.Refs) >= 1, "a pack stores at least one zip")
		if zipMax < 1<<20 && len(whole) > 2 {
			vrt.Assert(len(large.Refs) >= 2, "with a small zip limit the file is spread over several zips")
			vrt.Cover("multi-zip")
		}
	}
	if crashed {
		vrt.Cover("crashed")
	}
	if hit && !crashed && err != nil {
		vrt.Cover("pack failed")
	}
	// restart on whatever state the pack left
	s2 := &storage{small: small, large: large, meta: meta, forceMaxZipBlobSize: zipMax}
	s2.init()
	vCheckMap(s2, bs, "after a pack (crash/fault at any step, restart)")
	if reindex {
		// recovery: the zips alone rebuild the meta index, whatever step the pack reached
		vReindexCheck(small, large, meta, bs, whole, zipMax, !hit, !hit)
		return
	}
	if !hit || (!crashed && err == nil) {
		if !(hit && faultMode) { // a failed loose-blob removal is tolerated by design (logged)
			vCheckPackedState(s2, small, large, meta, bs, whole, zipMax)
		}
		return
	}
	// second attempt on the partial state
	_, err2 := vRunPack(s2, fileRef)
	s3 := &storage{small: small, large: large, meta: meta, forceMaxZipBlobSize: zipMax}
	s3.init()
	vCheckMap(s3, bs, "after re-packing a partially packed file")
	if err2 == nil {
		vrt.Cover("repacked")
		vCheckPackedState(s3, small, large, meta, bs, whole, zipMax)
	}
}

func VK04cPackCrash1() { vEOFChoice = true; vPackSteps(1, false, false) }
func VK04cPackCrash2() { vEOFChoice = true; vPackSteps(2, false, false) }
func VK04cPackFault2() { vPackSteps(2, true, false) }
func VK04dReindex2()   { vPackSteps(2, false, true) }

// VK04dReindexDups: the pack of a file stops before its final whole-file row (the row's write
// fails), the same content is then uploaded under another file name and packed again (new zips
// for the same parts: duplicates), and the meta index is rebuilt from the zips.
func VK04dReindexDups() {
	vrt.Schedules(2)
	vZipStubs()
	small, large, meta, bs, fileRef, whole := vPackWorld(2)
	file2 := blob.VerifSmallRef(31)
	const body2 = "{g}"
	desc := schema.VerifSchemaByBody[vFileBody]
	schema.VerifSchemaByBody[body2] = schema.VerifNewBlob(file2, schema.VerifBlobDesc{Type: "file", Parts: desc.VerifParts(), FileName: "x"})
	bs = append(bs, &vBlobState{ref: file2, data: []byte(body2), inSmall: true})
	small.Put(file2, []byte(body2))
	vZipRefDesc = vrt.Choice(2) == 1
	zipMax := 1 << 20
	if vrt.Choice(2) == 1 {
		zipMax = vZipMaxFor()
	}
	s := &storage{small: small, large: large, meta: meta, forceMaxZipBlobSize: zipMax}
	s.init()
	meta.Fault = func(op string) bool { return op == "set" } // only the final w:<wholeref> row is written with Set
	_, err := vRunPack(s, fileRef)
	meta.Fault = nil
	vrt.Assert(err != nil, "a pack whose final row cannot be written reports the failure")
	s2 := &storage{small: small, large: large, meta: meta, forceMaxZipBlobSize: zipMax}
	s2.init()
	vCheckMap(s2, bs, "after a pack without its final row")
	_, err = vRunPack(s2, file2)
	vrt.Assert(err == nil, "packing the same content under another name succeeds")
	vCheckMap(s2, bs, "after packing the same content under another name")
	vCheckPackedStateReads(s2, whole)
	vReindexCheck(small, large, meta, bs, whole, zipMax, true, false)
	vrt.Cover("done")
}
