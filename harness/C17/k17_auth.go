package serverinit

// C17 (second half, kernel): every blob endpoint routed by camliHandlerUsingStorage demands a
// non-empty set of permissions, and a request without credentials is refused under a
// user/password configuration, for every method and action.

import (
	"net/http"
	"net/url"

	"perkeep.org/internal/vrt"
	"perkeep.org/pkg/auth"
)

func VK17bAuthRequired() {
	methods := []string{"GET", "HEAD", "POST", "PUT", "DELETE", "PATCH"}
	actions := []string{"enumerate-blobs", "stat", "ws", "upload", "remove", "sha224-ea09ae9cc6768c50fcee903ed054556e5bfc8347907f12598aa24193", "other"}
	m := methods[vrt.Choice(len(methods))]
	a := actions[vrt.Choice(len(actions))]
	req := &http.Request{Method: m, URL: &url.URL{Path: "/bs/camli/" + a}, Header: http.Header{}, RemoteAddr: "203.0.113.7:4242"}
	h, op := camliHandlerUsingStorage(req, a, nil)
	vrt.Assert(h != nil, "every request gets a handler")
	vrt.Assert(op != 0, "every blob endpoint demands some permission")
	am := &auth.UserPass{Username: "u", Password: "p"}
	vrt.Assert(!auth.AllowedWithAuth(am, req, op), "a request without credentials is refused")
	vrt.Cover("done")
}
