package server

// C17: without credentials, blobs are reachable only through a valid share chain
// (validation logic of the share handler over a symbolic blob graph).

import (
	"bytes"
	"context"
	"io"
	"net/http"
	"net/url"
	"os"
	"strings"
	"time"

	"perkeep.org/internal/vrt"
	"perkeep.org/pkg/blob"
	"perkeep.org/pkg/index"
	"perkeep.org/pkg/schema"
)

// the world: a few blobs described abstractly
type vBlob struct {
	ref  blob.Ref
	desc schema.VerifBlobDesc
	// reference view
	isShare bool
	links   []blob.Ref // genuine schema links (parts, entries, members, sub-sets)
	present bool
	schema  bool
}

var vWorld []*vBlob

func vFind(br blob.Ref) *vBlob {
	for _, b := range vWorld {
		if b.ref == br {
			return b
		}
	}
	return nil
}

type vFetcher struct{}

func (vFetcher) Fetch(ctx context.Context, br blob.Ref) (io.ReadCloser, uint32, error) {
	for i, b := range vWorld {
		if b.ref == br && b.present {
			// body: index byte + the text of every ref the blob mentions (for the bytes.Contains fast path)
			body := []byte{byte(i)}
			for _, l := range b.links {
				body = append(body, []byte(l.String())...)
			}
			if b.desc.Target.Valid() {
				body = append(body, []byte(b.desc.Target.String())...)
			}
			return io.NopCloser(bytes.NewReader(body)), uint32(len(body)), nil
		}
	}
	return nil, 0, os.ErrNotExist
}

// model of schema.BlobFromReader for the bodies handed out by vFetcher
func vBlobFromReader(br blob.Ref, r io.Reader) (*schema.Blob, error) {
	var b [1]byte
	if _, err := io.ReadFull(r, b[:]); err != nil {
		return nil, err
	}
	w := vWorld[b[0]]
	if !w.schema {
		return nil, os.ErrInvalid
	}
	return schema.VerifNewBlob(br, w.desc), nil
}

type vRW struct{ h http.Header }

func (w *vRW) Header() http.Header         { return w.h }
func (w *vRW) Write(p []byte) (int, error) { return len(p), nil }
func (w *vRW) WriteHeader(int)             {}

var vServed blob.Ref
var vServedAssembled bool

func vInstall() {
	vServed = blob.Ref{}
	vServedAssembled = false
	timeSleep = func(time.Duration) {}
	schema.VerifSetClock(func() time.Time { return time.Unix(5000, 0) })
	vrt.Stub("perkeep.org/pkg/schema.BlobFromReader", vBlobFromReader)
	vrt.Stub("perkeep.org/pkg/blobserver/gethandler.ServeBlobRef", func(rw http.ResponseWriter, req *http.Request, br blob.Ref, f blob.Fetcher) {
		vServed = br
	})
	vrt.Stub("(*perkeep.org/pkg/server.DownloadHandler).ServeFile", func(w http.ResponseWriter, r *http.Request, file blob.Ref) {
		vServed = file
		vServedAssembled = true
	})
}

func vRef(i int) blob.Ref { return blob.VerifSmallRef(byte(10 + i)) }

// world: [0] share claim, [1] its target (file/dir/static-set/other), [2] a blob linked (or merely
// mentioned) from [1], [3] a blob linked from [2], [4] an unrelated blob.
func vBuildWorld(shareKind int) (shareDeleted bool) {
	vWorld = nil
	share := &vBlob{ref: vRef(0), present: vrt.Choice(2) == 0 || true, schema: true}
	share.desc = schema.VerifBlobDesc{Type: "claim", ClaimType: "share", AuthType: "haveref", Target: vRef(1), Signed: true}
	share.isShare = true
	switch shareKind {
	case 0:
	case 1:
		share.desc.Transitive = true
	case 2:
		share.desc.Transitive = true
		share.desc.Expires = time.Unix(4000, 0) // expired
		share.isShare = false
	case 3:
		share.desc.ClaimType = "set-attribute" // not a share
		share.isShare = false
	case 5, 6:
		// a search share: it shares a search, not a blob; no hop is authorised by it
		share.desc.Target = blob.Ref{}
		share.desc.Search = "query"
		share.desc.Transitive = shareKind == 6
	default:
		share.desc.Transitive = true
		share.desc.AuthType = "other"
		share.isShare = false
	}
	vWorld = append(vWorld, share)
	// node kinds for [1] and [2]
	mk := func(i int, next blob.Ref) *vBlob {
		b := &vBlob{ref: vRef(i), present: true, schema: true}
		switch vrt.Choice(6) {
		case 0:
			b.desc = schema.VerifBlobDesc{Type: "file", Parts: []*schema.BytesPart{{BlobRef: next, Size: 1}}}
			b.links = []blob.Ref{next}
		case 1:
			b.desc = schema.VerifBlobDesc{Type: "bytes", Parts: []*schema.BytesPart{{BytesRef: next, Size: 1}}}
			b.links = []blob.Ref{next}
		case 2:
			b.desc = schema.VerifBlobDesc{Type: "directory", Entries: next}
			b.links = []blob.Ref{next}
		case 3:
			b.desc = schema.VerifBlobDesc{Type: "static-set", Members: []blob.Ref{vRef(4), next}}
			b.links = []blob.Ref{vRef(4), next}
		case 4:
			b.desc = schema.VerifBlobDesc{Type: "static-set", MergeSets: []blob.Ref{next}}
			b.links = []blob.Ref{next}
		default:
			// mentions next in a non-link field only (a claim about it): not a schema link
			b.desc = schema.VerifBlobDesc{Type: "claim", ClaimType: "set-attribute", Target: next, Signed: true}
		}
		return b
	}
	vWorld = append(vWorld, mk(1, vRef(2)), mk(2, vRef(3)))
	vWorld = append(vWorld, &vBlob{ref: vRef(3), present: true}, &vBlob{ref: vRef(4), present: true})
	return vrt.Choice(2) == 1
}

// how the share got deleted: once, or twice with the newer deletion itself deleted (still deleted)
func vDeleteHistory() *index.Index {
	if vrt.Choice(2) == 0 {
		return index.VerifIndexWithDeletes([]blob.Ref{vRef(0)}, []blob.Ref{blob.VerifSmallRef(99)}, []time.Time{time.Unix(10, 0)})
	}
	d1, d2, d3 := blob.VerifSmallRef(97), blob.VerifSmallRef(98), blob.VerifSmallRef(99)
	return index.VerifIndexWithDeletes([]blob.Ref{vRef(0), vRef(0), d2}, []blob.Ref{d1, d2, d3}, []time.Time{time.Unix(10, 0), time.Unix(20, 0), time.Unix(30, 0)})
}

// reference: may the chain be served?
func vAllowed(chain []blob.Ref, shareDeleted bool) bool {
	first := vFind(chain[0])
	if first == nil || !first.present || !first.isShare || shareDeleted {
		return false
	}
	if len(chain) == 1 {
		return true
	}
	if chain[1] != first.desc.Target {
		return false
	}
	if len(chain) > 2 && !first.desc.Transitive {
		return false
	}
	for i := 1; i+1 < len(chain); i++ {
		b := vFind(chain[i])
		if b == nil || !b.present {
			return false
		}
		ok := false
		for _, l := range b.links {
			if l == chain[i+1] {
				ok = true
			}
		}
		if !ok {
			return false
		}
	}
	return true
}

func VK17Share0() { vShareChain(0) }
func VK17Share1() { vShareChain(1) }
func VK17Share2() { vShareChain(2) }
func VK17Share3() { vShareChain(3) }
func VK17Share4() { vShareChain(4) }
func VK17Share5() { vShareChain(5) }
func VK17Share6() { vShareChain(6) }

func vShareChain(shareKind int) {
	vInstall()
	shareDeleted := vBuildWorld(shareKind)
	var idx *index.Index
	if shareDeleted {
		idx = vDeleteHistory()
	} else {
		idx = index.VerifIndexWithDeletes(nil, nil, nil)
	}
	h := &shareHandler{fetcher: vFetcher{}, idx: idx}
	// request chain: via = chain[:n-1], blobRef = chain[n-1]; elements from the world
	n := 1 + vrt.Choice(4)
	var chain []blob.Ref
	for i := 0; i < n; i++ {
		chain = append(chain, vRef(i)) // the natural path share -> target -> ...
	}
	natural := true
	if k := vrt.Choice(n + 1); k < n {
		// one element replaced by any blob of the world
		r := vRef(vrt.Choice(5))
		if r != chain[k] {
			natural = false
		}
		chain[k] = r
	}
	var via []string
	for _, br := range chain[:n-1] {
		via = append(via, br.String())
	}
	method := "GET"
	if natural && vrt.Choice(2) == 1 {
		method = "POST"
	}
	assemble := natural && vrt.Choice(2) == 1
	form := url.Values{}
	if len(via) > 0 {
		form["via"] = []string{strings.Join(via, ",")}
	}
	if assemble {
		form["assemble"] = []string{"1"}
	}
	req := &http.Request{Method: method, Form: form, URL: &url.URL{Path: "/" + chain[n-1].String()}}
	rw := &vRW{h: http.Header{}}
	err := h.handleGetViaSharing(rw, req, chain[n-1])
	allowed := method == "GET" && vAllowed(chain, shareDeleted)
	if assemble && allowed {
		// whole-file assembly additionally needs a transitive share
		allowed = vFind(chain[0]).desc.Transitive
	}
	if allowed {
		vrt.Cover("served")
		vrt.Assert(err == nil && vServed == chain[n-1], "every blob reachable through a valid share chain is served")
	} else {
		vrt.Cover("refused")
		vrt.Assert(err != nil, "a request without a valid share chain is refused")
		vrt.Assert(!vServed.Valid(), "nothing is served for a refused request")
	}
}
