package kvfile

// C10 (kvfile wrapper): CommitBatch applies a batch atomically and in order on top of a
// transactional store: over-limit entries are skipped (the documented convention of Set), every
// other mutation is applied, and a failing database call leaves nothing applied. The database
// engine itself (modernc.org/kv) is replaced by a transactional model; only the wrapper is real.

import (
	"errors"
	"strings"

	"perkeep.org/internal/vrt"
	"perkeep.org/pkg/sorted"
	"modernc.org/kv"
)

type vTx struct {
	keys, vals []string // committed
	pk, pv     []string // inside the open transaction
	inTx       bool
	calls      int
	failAt     int
}

var vDB *vTx

var vErr = errors.New("model: database call failed")

func (d *vTx) step() error {
	k := d.calls
	d.calls++
	if k == d.failAt {
		return vErr
	}
	return nil
}

func vSet(keys, vals []string, k, v string) ([]string, []string) {
	for i := range keys {
		if keys[i] == k {
			vals[i] = v
			return keys, vals
		}
	}
	return append(keys, k), append(vals, v)
}

func vDel(keys, vals []string, k string) ([]string, []string) {
	for i := range keys {
		if keys[i] == k {
			return append(keys[:i:i], keys[i+1:]...), append(vals[:i:i], vals[i+1:]...)
		}
	}
	return keys, vals
}

func vInstallDB() *vTx {
	d := &vTx{failAt: -1}
	vDB = d
	vrt.Stub("(*modernc.org/kv.DB).BeginTransaction", func() error {
		if err := d.step(); err != nil {
			return err
		}
		d.inTx = true
		d.pk, d.pv = append([]string(nil), d.keys...), append([]string(nil), d.vals...)
		return nil
	})
	vrt.Stub("(*modernc.org/kv.DB).Set", func(k, v []byte) error {
		if err := d.step(); err != nil {
			return err
		}
		if d.inTx {
			d.pk, d.pv = vSet(d.pk, d.pv, string(k), string(v))
		} else {
			d.keys, d.vals = vSet(d.keys, d.vals, string(k), string(v))
		}
		return nil
	})
	vrt.Stub("(*modernc.org/kv.DB).Delete", func(k []byte) error {
		if err := d.step(); err != nil {
			return err
		}
		if d.inTx {
			d.pk, d.pv = vDel(d.pk, d.pv, string(k))
		} else {
			d.keys, d.vals = vDel(d.keys, d.vals, string(k))
		}
		return nil
	})
	vrt.Stub("(*modernc.org/kv.DB).Commit", func() error {
		if err := d.step(); err != nil {
			// model assumption: a commit that fails applies nothing and ends the transaction
			d.inTx = false
			return err
		}
		d.keys, d.vals, d.inTx = d.pk, d.pv, false
		return nil
	})
	vrt.Stub("(*modernc.org/kv.DB).Rollback", func() error {
		d.inTx = false
		return nil
	})
	vrt.Stub("(*modernc.org/kv.DB).Get", func(buf, k []byte) ([]byte, error) {
		for i := range d.keys {
			if d.keys[i] == string(k) {
				return []byte(d.vals[i]), nil
			}
		}
		return nil, nil
	})
	return d
}

func VK10dKvfileBatch() {
	d := vInstallDB()
	is := &kvis{db: new(kv.DB)}
	d.keys, d.vals = []string{"a", "b"}, []string{"1", "2"}
	refK, refV := []string{"a", "b"}, []string{"1", "2"}
	bigKey := strings.Repeat("k", sorted.MaxKeySize+1)
	b := is.BeginBatch()
	n := 2 + vrt.Choice(2)
	for i := 0; i < n; i++ {
		switch vrt.Choice(4) {
		case 0:
			k := []string{"a", "c"}[vrt.Choice(2)]
			b.Set(k, "x")
			refK, refV = vSet(refK, refV, k, "x")
		case 1:
			k := []string{"a", "b"}[vrt.Choice(2)]
			b.Delete(k)
			refK, refV = vDel(refK, refV, k)
		case 2:
			b.Set(bigKey, "v") // over the key size limit: skipped, like Set does
			vrt.Cover("oversize")
		case 3:
			b.Set("d", strings.Repeat("v", sorted.MaxValueSize+1)) // over the value size limit
		}
	}
	d.failAt = vrt.Choice(n + 3) // one of the database calls fails, or none (n+2)
	beforeK, beforeV := append([]string(nil), d.keys...), append([]string(nil), d.vals...)
	err := is.CommitBatch(b)
	failed := d.failAt < d.calls
	d.failAt = -1
	wantK, wantV := refK, refV
	if failed {
		vrt.Assert(err != nil, "a failing database call fails the batch")
		wantK, wantV = beforeK, beforeV
		vrt.Cover("failed")
	} else {
		vrt.Assert(err == nil, "a batch over a healthy database commits")
	}
	vrt.Assert(!d.inTx, "no transaction is left open")
	for _, k := range []string{"a", "b", "c", "d", bigKey} {
		got, gerr := is.Get(k)
		want, ok := "", false
		for i := range wantK {
			if wantK[i] == k {
				want, ok = wantV[i], true
			}
		}
		if ok {
			vrt.Assert(gerr == nil && got == want, "after the batch every key has the value of the last applied mutation (all or nothing)")
		} else {
			vrt.Assert(gerr == sorted.ErrNotFound, "after the batch deleted, skipped and rolled-back keys are absent")
		}
	}
	vrt.Cover("done")
}
