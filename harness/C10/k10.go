package buffer

// C10: the write buffer layered over another store is observationally a byte-ordered
// map with atomic in-order batches.

import (
	"strings"

	"perkeep.org/internal/vmodel"
	"perkeep.org/internal/vrt"
	"perkeep.org/pkg/sorted"
)

// a one-byte key over {a,b,c} (enumerated), values are symbolic bytes
func vKey() string {
	return string([]byte{byte('a' + vrt.Choice(3))})
}

func vVal() string { return string([]byte{vrt.U8()}) }

// vStore: a model store with 0..2 rows, keys ascending
func vStore() *vmodel.KV {
	kv := &vmodel.KV{}
	// any subset of {a,b,c}
	for _, k := range []string{"a", "b", "c"} {
		if vrt.Choice(2) == 1 {
			kv.Keys = append(kv.Keys, k)
			kv.Vals = append(kv.Vals, vVal())
		}
	}
	return kv
}

type vRef struct{ keys, vals []string }

func (r *vRef) get(k string) (string, bool) {
	for i := range r.keys {
		if r.keys[i] == k {
			return r.vals[i], true
		}
	}
	return "", false
}

func (r *vRef) set(k, v string) {
	for i := range r.keys {
		if r.keys[i] == k {
			r.vals[i] = v
			return
		}
	}
	r.keys = append(r.keys, k)
	r.vals = append(r.vals, v)
}

func (r *vRef) del(k string) {
	for i := range r.keys {
		if r.keys[i] == k {
			r.keys = append(r.keys[:i], r.keys[i+1:]...)
			r.vals = append(r.vals[:i], r.vals[i+1:]...)
			return
		}
	}
}

func VK10aBuffer() {
	buf, back := vStore(), vStore()
	ref := &vRef{}
	for i, k := range back.Keys {
		ref.set(k, back.Vals[i])
	}
	for i, k := range buf.Keys {
		ref.set(k, buf.Vals[i]) // the buffer shadows the backing store
	}
	kv := New(buf, back, int64(vrt.Choice(2))*1000) // flush threshold 0 (flush on every set) or large
	switch vrt.Choice(5) {
	case 0:
		k, v := vKey(), vVal()
		vrt.Assert(kv.Set(k, v) == nil, "Set succeeds")
		ref.set(k, v)
	case 1:
		k := vKey()
		vrt.Assert(kv.Delete(k) == nil, "Delete succeeds")
		ref.del(k)
	case 2:
		b := kv.BeginBatch()
		for i := 0; i < 2; i++ {
			k := vKey()
			if vrt.Choice(2) == 0 {
				v := vVal()
				b.Set(k, v)
				ref.set(k, v)
			} else {
				b.Delete(k)
				ref.del(k)
			}
		}
		vrt.Assert(kv.CommitBatch(b) == nil, "CommitBatch succeeds")
	case 3:
		vrt.Assert(kv.Flush() == nil, "Flush succeeds")
	default:
	}
	// Get agrees with the reference map for every key
	for _, k := range []string{"a", "b", "c"} {
		got, err := kv.Get(k)
		want, ok := ref.get(k)
		if ok {
			vrt.Assert(err == nil && got == want, "Get returns the last value set")
		} else {
			vrt.Assert(err == sorted.ErrNotFound, "Get of an absent/deleted key is not-found")
		}
	}
	// a range scan returns exactly the keys in [start,end), ascending, each once, current values
	start, end := "", ""
	if vrt.Choice(2) == 1 {
		start = "b"
	}
	if vrt.Choice(2) == 1 {
		end = "c"
	}
	it := kv.Find(start, end)
	var keys, vals []string
	for it.Next() {
		keys = append(keys, it.Key())
		vals = append(vals, it.Value())
		vrt.Assert(string(it.KeyBytes()) == it.Key() && string(it.ValueBytes()) == it.Value(), "byte accessors agree")
		if len(keys) > 6 {
			break
		}
	}
	vrt.Assert(it.Close() == nil, "iterator closes cleanly")
	n := 0
	for _, k := range []string{"a", "b", "c"} {
		want, ok := ref.get(k)
		in := ok && k >= start && (end == "" || k < end)
		if in {
			vrt.Assert(n < len(keys) && keys[n] == k && vals[n] == want, "scan yields exactly the keys in [start,end) ascending with current values")
			n++
		}
	}
	vrt.Assert(n == len(keys), "scan yields nothing else")
}

// K10c: sizes at the documented limits: a key/value at the limit is stored, over the limit it is silently skipped.
func VK10cSizeLimits() {
	buf, back := &vmodel.KV{}, &vmodel.KV{}
	kv := New(buf, back, 1<<20)
	kOK, kBig := strings.Repeat("k", sorted.MaxKeySize), strings.Repeat("k", sorted.MaxKeySize+1)
	vOK, vBig := strings.Repeat("v", sorted.MaxValueSize), strings.Repeat("v", sorted.MaxValueSize+1)
	vrt.Assert(sorted.CheckSizes(kOK, vOK) == nil, "a key and value of exactly the maximum sizes are accepted")
	vrt.Assert(sorted.CheckSizes(kBig, "v") != nil && sorted.CheckSizes("k", vBig) != nil, "over-limit key or value is rejected by CheckSizes")
	vrt.Assert(kv.Set(kOK, "1") == nil, "Set at the key limit succeeds")
	got, err := kv.Get(kOK)
	vrt.Assert(err == nil && got == "1", "a key of exactly the maximum size is stored")
	vrt.Assert(kv.Set(kBig, "1") == nil, "Set over the key limit is silently skipped")
	_, err = kv.Get(kBig)
	vrt.Assert(err == sorted.ErrNotFound, "an over-limit key is not stored")
	b := kv.BeginBatch()
	b.Set("a", "1")
	b.Set(kBig, "2")
	b.Set("b", vBig)
	b.Set("c", "3")
	vrt.Assert(kv.CommitBatch(b) == nil, "a batch with over-limit entries commits")
	_, ea := kv.Get("a")
	_, eb := kv.Get("b")
	_, ec := kv.Get("c")
	vrt.Assert(ea == nil && ec == nil && eb == sorted.ErrNotFound, "over-limit batch entries are skipped, the others applied")
}

// K10e: a write concurrent with a Flush. Flush moves the buffered rows to the backing store and
// must not change the logical map: whatever the interleaving (every lock acquisition and every
// call into a lower store is a scheduling point), once both calls returned the written key has
// the written value (or is gone, for a delete) and every other key is unchanged.
func VK10eBufferConcurrent() {
	buf, back := vStore(), vStore()
	ref := &vRef{}
	for i, k := range back.Keys {
		ref.set(k, back.Vals[i])
	}
	for i, k := range buf.Keys {
		ref.set(k, buf.Vals[i])
	}
	kv := New(buf, back, 1000)
	k, v := vKey(), vVal()
	del := vrt.Choice(2) == 1
	vmodel.YieldAtBoundaries = true
	vrt.PreemptAtLocks(true)
	vrt.RaceDetect(true) // happens-before detector: the buffered store and the backing store are not goroutine-safe by themselves
	vrt.Schedules(12)
	done := make(chan bool, 2)
	go func() {
		vrt.Assert(kv.Flush() == nil, "Flush succeeds")
		done <- true
	}()
	go func() {
		if del {
			vrt.Assert(kv.Delete(k) == nil, "Delete succeeds")
		} else {
			vrt.Assert(kv.Set(k, v) == nil, "Set succeeds")
		}
		done <- true
	}()
	<-done
	<-done
	vrt.PreemptAtLocks(false)
	vrt.RaceDetect(false)
	vmodel.YieldAtBoundaries = false
	if del {
		ref.del(k)
	} else {
		ref.set(k, v)
	}
	for _, key := range []string{"a", "b", "c"} {
		got, err := kv.Get(key)
		want, ok := ref.get(key)
		if ok {
			vrt.Assert(err == nil && got == want, "after a write concurrent with a Flush, Get returns the last value set")
		} else {
			vrt.Assert(err == sorted.ErrNotFound, "after a delete concurrent with a Flush, the key is not found")
		}
	}
	vrt.Cover("done")
}
