package sorted

// C10: the in-memory KeyValue (goleveldb memdb skip list) is a byte-ordered map with in-order
// batches: every history of 3..4 operations agrees with a reference map.

import (
	"perkeep.org/internal/vrt"
)

type vRefKV struct{ keys, vals []string } // kept sorted

func (r *vRefKV) find(k string) (int, bool) {
	for i := range r.keys {
		if r.keys[i] == k {
			return i, true
		}
		if r.keys[i] > k {
			return i, false
		}
	}
	return len(r.keys), false
}

func (r *vRefKV) set(k, v string) {
	i, ok := r.find(k)
	if ok {
		r.vals[i] = v
		return
	}
	r.keys = append(r.keys, "")
	r.vals = append(r.vals, "")
	copy(r.keys[i+1:], r.keys[i:])
	copy(r.vals[i+1:], r.vals[i:])
	r.keys[i], r.vals[i] = k, v
}

func (r *vRefKV) del(k string) {
	if i, ok := r.find(k); ok {
		r.keys = append(r.keys[:i], r.keys[i+1:]...)
		r.vals = append(r.vals[:i], r.vals[i+1:]...)
	}
}

var vMemKeys = []string{"a", "ab", "b"}

func vMemKey() string { return vMemKeys[vrt.Choice(len(vMemKeys))] }
func vMemVal() string { return string([]byte{vrt.U8()}) } // a symbolic byte

func VK10bMemory() {
	kv := NewMemoryKeyValue()
	ref := &vRefKV{}
	// a single operation, a batch of two, then 1 (quick) / 2 (thorough) more single operations
	steps := 3 + vrt.Tier()
	for s := 0; s < steps; s++ {
		kind := vrt.Choice(2)
		if s == 1 {
			kind = 2
		}
		switch kind {
		case 0:
			k, v := vMemKey(), vMemVal()
			vrt.Assert(kv.Set(k, v) == nil, "Set succeeds")
			ref.set(k, v)
		case 1:
			k := vMemKey()
			vrt.Assert(kv.Delete(k) == nil, "Delete succeeds (also of an absent key)")
			ref.del(k)
		case 2:
			b := kv.BeginBatch()
			for i := 0; i < 2; i++ {
				k := vMemKey()
				if vrt.Choice(2) == 0 {
					v := vMemVal()
					b.Set(k, v)
					ref.set(k, v)
				} else {
					b.Delete(k)
					ref.del(k)
				}
			}
			vrt.Assert(kv.CommitBatch(b) == nil, "CommitBatch succeeds")
		}
	}
	for _, k := range vMemKeys {
		got, err := kv.Get(k)
		if i, ok := ref.find(k); ok {
			vrt.Assert(err == nil && got == ref.vals[i], "Get returns the last value set")
		} else {
			vrt.Assert(err == ErrNotFound, "Get of an absent/deleted key is not-found")
		}
	}
	bounds := []string{"", "a", "ab", "b", "c"}
	for _, start := range bounds {
		for _, end := range bounds {
			vMemScan(kv, ref, start, end)
		}
	}
	vrt.Cover("done")
}

func vMemScan(kv KeyValue, ref *vRefKV, start, end string) {
	it := kv.Find(start, end)
	n := 0
	for i := range ref.keys {
		if ref.keys[i] < start || (end != "" && ref.keys[i] >= end) {
			continue
		}
		ok := it.Next()
		vrt.Assert(ok, "a scan yields every key in [start,end)")
		if !ok {
			break
		}
		vrt.Assert(it.Key() == ref.keys[i] && it.Value() == ref.vals[i] && string(it.KeyBytes()) == ref.keys[i] && string(it.ValueBytes()) == ref.vals[i],
			"a scan yields the keys in [start,end) ascending with their current values")
		n++
	}
	vrt.Assert(!it.Next(), "a scan yields nothing beyond [start,end)")
	vrt.Assert(it.Close() == nil, "closing the iterator succeeds")
}
