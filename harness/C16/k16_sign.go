package jsonsign

// C16 (signing side, byte level): SignRequest.Sign over a stubbed OpenPGP and JSON decoder. What
// is decided is the string surgery of Sign (trailing space, the closing brace, the armor
// frame, line joins) and its agreement with NewVerificationRequest: the bytes handed to the
// signer are exactly the bytes a verifier hashes (BP), the payload object the verifier parses
// (BPJ) is byte-identical to the unsigned document, and BS carries the signature.

import (
	"context"
	"io"
	"strings"
	"time"

	"golang.org/x/crypto/openpgp"
	"golang.org/x/crypto/openpgp/packet"

	"perkeep.org/internal/vrt"
	"perkeep.org/pkg/blob"
)

type vKeyFetcher struct{}

func (vKeyFetcher) Fetch(ctx context.Context, br blob.Ref) (io.ReadCloser, uint32, error) {
	return io.NopCloser(strings.NewReader("key")), 3, nil
}

type vEntityFetcher struct{}

func (vEntityFetcher) FetchEntity(fp string) (*openpgp.Entity, error) { return &openpgp.Entity{}, nil }

var vSignedBytes string

func VK16bSignThenPartition() {
	signer := "sha224-00000000000000000000000000000000000000000000000000000001"
	vrt.Stub("encoding/json.Unmarshal", func(data []byte, v any) error {
		// the documents below are well-formed by construction; the decoder itself is outside
		m := v.(*map[string]any)
		(*m)["camliSigner"] = signer
		return nil
	})
	vrt.Stub("perkeep.org/pkg/jsonsign.openArmoredPublicKeyFile", func(r io.ReadCloser) (*packet.PublicKey, error) {
		return &packet.PublicKey{}, nil
	})
	vrt.Stub("perkeep.org/pkg/jsonsign.fingerprintString", func(k *packet.PublicKey) string { return "FP" })
	sigLines := []string{"iQEcBAAB", "CgAGBQJ", "=abcd"}
	nl := 1 + vrt.Choice(3)
	vrt.Stub("golang.org/x/crypto/openpgp.ArmoredDetachSign", func(w io.Writer, e *openpgp.Entity, message io.Reader, config *packet.Config) error {
		b, err := io.ReadAll(message)
		if err != nil {
			return err
		}
		vSignedBytes = string(b)
		io.WriteString(w, "-----BEGIN PGP SIGNATURE-----\n\n"+strings.Join(sigLines[:nl], "\n")+"\n-----END PGP SIGNATURE-----")
		return nil
	})
	// unsigned document: {"camliSigner":"<ref>","k":<value>} + optional trailing space
	val := vrt.String(2)
	vrt.Assume(!strings.Contains(val, "\"") && !strings.Contains(val, "\\"))
	var v string
	switch vrt.Choice(6) {
	case 0:
		v = "\"" + val + "\""
	case 1:
		v = "12"
	case 2:
		v = "[1]"
	case 3:
		v = "{}" // the document ends in "}}"
	case 4:
		v = "{\"n\":{\"" + val + "\":1}}" // ends in "}}}"
	default:
		v = "\"" + sigSeparator + val + "\"" // a separator look-alike inside a string
	}
	doc := "{\"camliSigner\":\"" + signer + "\",\"k\":" + v + "}"
	tail := []string{"", "\n", " \n\t", "\r\n"}[vrt.Choice(4)]
	sr := &SignRequest{UnsignedJSON: doc + tail, Fetcher: vKeyFetcher{}, EntityFetcher: vEntityFetcher{}, SignatureTime: time.Unix(1, 0)}
	signed, err := sr.Sign(context.Background())
	vrt.Assert(err == nil, "signing a well-formed unsigned object succeeds")
	if err != nil {
		return
	}
	sig := strings.Join(sigLines[:nl], "")
	vrt.Assert(signed == doc[:len(doc)-1]+sigSeparator+sig+"\"}\n", "the signed document is the unsigned object, minus its closing brace, plus the camliSig member")
	vr := NewVerificationRequest(signed, vNoFetcher{})
	vrt.Assert(vr.Err == nil, "the signed document has a separator")
	vrt.Assert(string(vr.bp) == vSignedBytes, "the bytes a verifier hashes (BP) are exactly the bytes that were signed")
	vrt.Assert(string(vr.bpj) == doc, "the payload object a verifier parses (BPJ) is byte-identical to the unsigned document")
	vrt.Assert(string(vr.bs) == "{\"camliSig\":\""+sig+"\"}\n", "BS carries exactly the signature")
	vrt.Cover("signed")
}
