package jsonsign

// C16 (byte-level partition only): the bytes that are hashed for signature verification
// are exactly the payload that was signed, for every payload incl. ones containing a
// look-alike of the 13-byte camliSig separator.

import (
	"context"
	"io"
	"os"
	"strings"

	"perkeep.org/internal/vrt"
	"perkeep.org/pkg/blob"
)

type vNoFetcher struct{}

func (vNoFetcher) Fetch(ctx context.Context, br blob.Ref) (io.ReadCloser, uint32, error) {
	return nil, 0, os.ErrNotExist
}

func VK16aPartition() {
	// payload: "{" body "}" ; body symbolic, optionally with an embedded separator look-alike
	var body string
	switch vrt.Choice(3) {
	case 0:
		body = vrt.String(vrt.Choice(7))
	case 1:
		body = vrt.String(2) + sigSeparator + vrt.String(2)
	default:
		body = sigSeparator + vrt.String(1) + sigSeparator
	}
	sig := vrt.String(1 + vrt.Choice(3))
	vrt.Assume(!strings.Contains(sig, "\""))
	payload := "{" + body + "}"
	signed := payload[:len(payload)-1] + sigSeparator + sig + "\"}\n"
	in := signed // NewVerificationRequest may reuse the string's bytes
	vr := NewVerificationRequest(in, vNoFetcher{})
	vrt.Assert(vr.Err == nil, "a signed document has a separator")
	vrt.Assert(string(vr.bp) == payload[:len(payload)-1], "the verified bytes (BP) are exactly the signed payload without its closing brace")
	vrt.Assert(string(vr.bpj) == payload, "BPJ is the original payload object")
	vrt.Assert(string(vr.bs) == "{\"camliSig\":\""+sig+"\"}\n", "BS is the signature object")
	vrt.Assert(signed == payload[:len(payload)-1]+sigSeparator+sig+"\"}\n", "the caller's document string is not modified")
}

func VK16aNoSeparator() {
	s := vrt.String(vrt.Choice(16))
	vrt.Assume(!strings.Contains(s, sigSeparator))
	vr := NewVerificationRequest(s, vNoFetcher{})
	vrt.Assert(vr.Err != nil, "a document without the camliSig separator is rejected")
	_, err := vr.Verify(context.Background())
	vrt.Assert(err != nil, "Verify fails for a document without separator")
}
