package handlers

// C18 (kernel): the enumerate and stat HTTP handlers give a protocol client the same map
// semantics as direct storage access.  The handlers are driven directly with a request
// whose form is pre-parsed and a recording ResponseWriter; the storage behind them is the
// contract-level reference store (the backends' conformance to it is C01's subject).

import (
	"bytes"
	"encoding/json"
	"hash"
	"io"
	"net/http"
	"net/url"
	"strconv"
	"strings"
	"time"

	"perkeep.org/internal/vmodel"
	"perkeep.org/internal/vrt"
	"perkeep.org/pkg/blob"
	"perkeep.org/pkg/blobserver"
	"perkeep.org/pkg/blobserver/protocol"
)

type vRW struct {
	hdr    http.Header
	status int
	body   []byte
}

func (w *vRW) Header() http.Header {
	if w.hdr == nil {
		w.hdr = http.Header{}
	}
	return w.hdr
}
func (w *vRW) WriteHeader(code int) {
	if w.status == 0 {
		w.status = code
	}
}
func (w *vRW) Write(p []byte) (int, error) {
	if w.status == 0 {
		w.status = 200
	}
	w.body = append(w.body, p...)
	return len(p), nil
}

// vCapped adds a server-side enumeration cap (blobserver.MaxEnumerateConfig).
type vCapped struct {
	*vmodel.Store
	max int
}

func (c vCapped) MaxEnumerate() int { return c.max }

var vClockMs int64
var vEpoch = time.Unix(1600000000, 0)

func vStubs() {
	// A model clock: one millisecond passes per time.Now call, and WaitForBlob ("when
	// WaitForBlob returns, nothing may have happened") returns at its deadline with no blob
	// having arrived.
	vClockMs = 0
	vrt.Stub("time.Now", func() time.Time {
		vClockMs++
		return vEpoch.Add(time.Duration(vClockMs) * time.Millisecond)
	})
	vrt.Stub("perkeep.org/pkg/blobserver.WaitForBlob", func(storage any, deadline time.Time, blobs []blob.Ref) {
		if ms := int64(deadline.Sub(vEpoch) / time.Millisecond); ms > vClockMs {
			vClockMs = ms
		}
	})
}

// vPage is what a protocol client reads from an enumerate response.
type vPage struct {
	refs  []string
	sizes []string
	cont  string
}

func vBetween(s, pre, post string) (string, string, bool) {
	i := strings.Index(s, pre)
	if i < 0 {
		return "", s, false
	}
	s = s[i+len(pre):]
	j := strings.Index(s, post)
	if j < 0 {
		return "", s, false
	}
	return s[:j], s[j+len(post):], true
}

func vParsePage(body string) vPage {
	var p vPage
	rest := body
	for {
		ref, r2, ok := vBetween(rest, "{\"blobRef\": \"", "\", \"size\": ")
		if !ok {
			break
		}
		sz, r3, ok := vBetween(r2, "", "}")
		vrt.Assert(ok, "every blobs element is well formed")
		p.refs = append(p.refs, ref)
		p.sizes = append(p.sizes, sz)
		rest = r3
	}
	if c, _, ok := vBetween(rest, "\"continueAfter\": \"", "\""); ok {
		p.cont = c
	}
	return p
}

var vOrder = [5]byte{3, 1, 4, 2, 5}

func vFill(st *vmodel.Store) (want []string, sizes []int) {
	var have [6]bool
	for _, x := range vOrder {
		if vrt.Bool() {
			have[x] = true
			st.Put(blob.VerifSmallRef(x), make([]byte, int(x)+1))
		}
	}
	for x := byte(1); x <= 5; x++ {
		if have[x] {
			want = append(want, blob.VerifSmallRef(x).String())
			sizes = append(sizes, int(x)+1)
		}
	}
	return
}

var vDigits = "0123456789"

func vItoa(n int) string {
	if n < 10 {
		return vDigits[n : n+1]
	}
	return vDigits[n/10:n/10+1] + vDigits[n%10:n%10+1]
}

// vLimit picks the client's limit parameter: absent, or 1..2 arbitrary bytes.  It returns the
// string and the page-size bound the protocol promises for it (0: no bound from the client).
func vLimit() (string, int) {
	switch vrt.Choice(3) {
	case 0:
		return "", 0
	case 1:
		s := vrt.String(1)
		if s[0] >= '0' && s[0] <= '9' {
			vrt.Assume(s[0] != '0')
			return s, int(s[0] - '0')
		}
		return s, 0
	}
	s := vrt.String(2)
	if s[0] >= '0' && s[0] <= '9' && s[1] >= '0' && s[1] <= '9' {
		v := int(s[0]-'0')*10 + int(s[1]-'0')
		vrt.Assume(v != 0)
		return s, v
	}
	return s, 0
}

func vEnumerateAll(st *vmodel.Store, want []string, sizes []int, first url.Values, limStr string, bound int) {
	var storage blobserver.BlobEnumerator = st
	capMax := 0
	if vrt.Bool() {
		capMax = vrt.Range(1, 3)
		storage = vCapped{st, capMax}
	}
	var got []string
	var gotSizes []string
	after := ""
	done := false
	for req := 0; req < len(want)+2 && !done; req++ {
		form := url.Values{}
		if req == 0 {
			for k, v := range first {
				form[k] = v
			}
		}
		if limStr != "" {
			form["limit"] = []string{limStr}
		}
		if after != "" {
			form["after"] = []string{after}
		}
		rw := &vRW{}
		r := &http.Request{Method: "GET", Form: form}
		handleEnumerateBlobs(rw, r, storage)
		vrt.Assert(rw.status == 200, "a well-formed enumerate request is answered 200")
		pg := vParsePage(string(rw.body))
		vrt.Assert(strings.HasSuffix(string(rw.body), "\n}\n") && !strings.Contains(string(rw.body), "SERVER ERROR"), "the response is complete")
		if bound > 0 {
			vrt.Assert(len(pg.refs) <= bound, "a page holds at most the client's limit")
		}
		if capMax > 0 && limStr != "" {
			// (without a limit parameter the handler asks for its default page of 100, which the
			// real caps -- 1000 -- exceed)
			vrt.Assert(len(pg.refs) <= capMax, "a page holds at most the server's cap")
		}
		for i, s := range pg.refs {
			if after != "" {
				vrt.Assert(s > after, "a page only holds blobs after the continuation point")
			}
			if i > 0 {
				vrt.Assert(pg.refs[i-1] < s, "a page is strictly sorted")
			}
		}
		got = append(got, pg.refs...)
		gotSizes = append(gotSizes, pg.sizes...)
		if pg.cont == "" {
			done = true
			break
		}
		vrt.Assert(len(pg.refs) > 0 && pg.cont == pg.refs[len(pg.refs)-1], "continueAfter is the last blob of a non-empty page")
		after = pg.cont
	}
	vrt.Assert(done, "paging terminates within one request per blob plus one")
	vrt.Assert(len(got) == len(want), "the pages hold every stored blob exactly once")
	for i := range want {
		vrt.Assert(got[i] == want[i], "the pages concatenate to the sorted contents of the store")
		vrt.Assert(gotSizes[i] == vItoa(sizes[i]), "every blob is listed with its size")
	}
	if len(want) > 0 {
		vrt.Cover("nonempty")
	}
	if len(got) > 0 && after != "" {
		vrt.Cover("paged")
	}
}

// K18a: a client paging through enumerate-blobs with any limit parameter, against a server with
// or without its own cap, reads the sorted contents of the store exactly once.
func VK18aEnumeratePaging() {
	vStubs()
	st := &vmodel.Store{}
	want, sizes := vFill(st)
	limStr, bound := vLimit()
	first := url.Values{}
	if vrt.Bool() {
		first["maxwaitsec"] = []string{"0"}
	}
	vEnumerateAll(st, want, sizes, first, limStr, bound)
}

// K18c: the long-poll parameter does not change what a client reads when blobs are present
// ("the server will return immediately if any blobs are available"), an empty store is
// answered with an empty list by the deadline, and maxwaitsec with after is refused.
func VK18cLongPoll() {
	vStubs()
	st := &vmodel.Store{}
	want, sizes := vFill(st)
	ws := vrt.String(1 + vrt.Choice(2))
	if vrt.Bool() {
		// refused combination: no listing at all
		vrt.Assume(ws != "0" && ws != "00" && ws != "+0" && ws != "-0")
		digits := true
		for i := 0; i < len(ws); i++ {
			if ws[i] < '0' || ws[i] > '9' {
				digits = false
			}
		}
		vrt.Assume(digits)
		rw := &vRW{}
		r := &http.Request{Method: "GET", Form: url.Values{"maxwaitsec": {ws}, "after": {blob.VerifSmallRef(1).String()}}}
		handleEnumerateBlobs(rw, r, st)
		vrt.Assert(rw.status == 400, "maxwaitsec with after is a bad request")
		vrt.Assert(len(vParsePage(string(rw.body)).refs) == 0, "a refused request lists nothing")
		vrt.Cover("refused")
		return
	}
	vEnumerateAll(st, want, sizes, url.Values{"maxwaitsec": {ws}}, "", 0)
}

// K18b: batch stat over the blobN form values reports exactly the requested blobs that are
// stored, each once and with its size, whatever the duplicates, gaps and long-poll parameter.
var vStatRes *protocol.StatResponse
var vBadReq bool

func VK18bStat() {
	vStubs()
	vStatRes, vBadReq = nil, false
	vrt.Stub("perkeep.org/internal/httputil.ReturnJSON", func(rw http.ResponseWriter, data any) {
		vStatRes = data.(*protocol.StatResponse)
		rw.WriteHeader(200)
	})
	vrt.Stub("perkeep.org/internal/httputil.BadRequestError", func(rw http.ResponseWriter, msg string, args ...any) {
		vBadReq = true
		rw.WriteHeader(400)
	})
	st := &vmodel.Store{}
	st.Put(blob.VerifSmallRef(2), make([]byte, 3))
	st.Put(blob.VerifSmallRef(1), make([]byte, 2))
	if vrt.Bool() {
		st.Put(blob.VerifSmallRef(3), make([]byte, 4))
	}
	form := url.Values{"camliversion": {"1"}}
	n := vrt.Choice(4)
	var asked [7]bool
	bogus := false
	for i := 1; i <= n; i++ {
		x := byte(vrt.Choice(5)) // 1, 2 stored, 3 stored or not, 4 never stored, 0 a malformed ref
		key := "blob" + vItoa(i)
		if x == 0 {
			form[key] = []string{"sha224-zz"}
			bogus = true
			break
		}
		asked[x] = true
		form[key] = []string{blob.VerifSmallRef(x).String()}
	}
	if vrt.Bool() {
		form["maxwaitsec"] = []string{vrt.String(1)}
	}
	method := "GET"
	if vrt.Bool() {
		method = "POST"
	}
	rw := &vRW{}
	handleStat(rw, &http.Request{Method: method, Form: form}, st)
	if bogus {
		vrt.Assert(rw.status == 400 && vStatRes == nil, "a malformed blobref is a bad request")
		vrt.Cover("bogus")
		return
	}
	vrt.Assert(rw.status == 200 || rw.status == 0, "a well-formed stat request succeeds")
	res := vStatRes
	if res == nil {
		res = new(protocol.StatResponse)
		vrt.Assert(json.Unmarshal(rw.body, res) == nil, "the stat response is JSON")
	}
	var seen [7]int
	for _, sb := range res.Stat {
		hit := false
		for x := byte(1); x <= 6; x++ {
			if sb.Ref == blob.VerifSmallRef(x) {
				hit = true
				seen[x]++
				vrt.Assert(asked[x], "only requested blobs are reported")
				vrt.Assert(st.Has(sb.Ref) && int(sb.Size) == len(st.Get(sb.Ref)), "a reported blob is stored with that size")
			}
		}
		vrt.Assert(hit, "only requested blobs are reported")
	}
	for x := byte(1); x <= 6; x++ {
		if asked[x] && st.Has(blob.VerifSmallRef(x)) {
			vrt.Assert(seen[x] == 1, "every requested stored blob is reported exactly once")
			vrt.Cover("found")
		} else {
			vrt.Assert(seen[x] == 0, "absent or unrequested blobs are not reported")
		}
	}
}

// K18d: the documented batch limit: 1000 blobN values are answered, 1001 are refused.
func VK18dStatLimit() {
	vStubs()
	vStatRes, vBadReq = nil, false
	vrt.Stub("perkeep.org/internal/httputil.ReturnJSON", func(rw http.ResponseWriter, data any) {
		vStatRes = data.(*protocol.StatResponse)
		rw.WriteHeader(200)
	})
	vrt.Stub("perkeep.org/internal/httputil.BadRequestError", func(rw http.ResponseWriter, msg string, args ...any) {
		vBadReq = true
		rw.WriteHeader(400)
	})
	st := &vmodel.Store{}
	st.Put(blob.VerifSmallRef(1), make([]byte, 2))
	n := 999 + vrt.Choice(3)
	form := url.Values{"camliversion": {"1"}}
	one, other := blob.VerifSmallRef(1).String(), blob.VerifSmallRef(2).String()
	for i := 1; i <= n; i++ {
		v := other
		if i == n {
			v = one
		}
		form["blob"+strconv.Itoa(i)] = []string{v}
	}
	rw := &vRW{}
	handleStat(rw, &http.Request{Method: "POST", Form: form}, st)
	if n > 1000 {
		vrt.Assert(rw.status == 400, "more than 1000 stat values are refused")
		vrt.Cover("refused")
		return
	}
	vrt.Assert(rw.status == 200 || rw.status == 0, "a batch within the documented limit of 1000 is answered")
	res := vStatRes
	if res == nil {
		res = new(protocol.StatResponse)
		vrt.Assert(json.Unmarshal(rw.body, res) == nil, "the stat response is JSON")
	}
	vrt.Assert(len(res.Stat) == 1 && res.Stat[0].Ref == blob.VerifSmallRef(1) && res.Stat[0].Size == 2, "the last value of a full batch is reported")
	vrt.Cover("full")
}

// K18e: what a client PUTs it can stat and finds exactly once in an enumeration - through the
// handlers only. The digest comparison is modelled (C02 decides it): the upload's bytes match
// the ref or not, symbolically.
func VK18eUploadThenRead() {
	vStubs()
	vStatRes, vBadReq = nil, false
	matches := vrt.Bool()
	vrt.Stub("(perkeep.org/pkg/blob.Ref).HashMatches", func(r blob.Ref, h hash.Hash) bool { return matches })
	vrt.Stub("perkeep.org/internal/httputil.ReturnJSON", func(rw http.ResponseWriter, data any) {
		vStatRes = data.(*protocol.StatResponse)
		rw.WriteHeader(200)
	})
	vrt.Stub("perkeep.org/internal/httputil.BadRequestError", func(rw http.ResponseWriter, msg string, args ...any) {
		vBadReq = true
		rw.WriteHeader(400)
	})
	vrt.Stub("perkeep.org/internal/httputil.ServeError", func(rw http.ResponseWriter, req *http.Request, err error) {
		rw.WriteHeader(500)
	})
	st := &vmodel.Store{}
	other := blob.VerifSmallRef(1)
	if vrt.Bool() {
		st.Put(other, []byte("zz"))
	}
	br := blob.VerifSmallRef(2)
	data := vrt.Bytes(1 + vrt.Choice(2))
	rw := &vRW{}
	put := &http.Request{Method: "PUT", URL: &url.URL{Path: "/bs/camli/" + br.String()}, Header: http.Header{},
		Body: io.NopCloser(bytes.NewReader(data)), ContentLength: int64(len(data))}
	CreatePutUploadHandler(st).ServeHTTP(rw, put)
	if !matches {
		vrt.Assert(rw.status == 400, "an upload whose bytes do not match the ref is refused")
		vrt.Assert(!st.Has(br), "a refused upload stores nothing")
		vrt.Cover("corrupt")
		return
	}
	vrt.Assert(rw.status == 204, "a matching upload is acknowledged")
	// stat through the protocol
	vStatRes = nil
	srw := &vRW{}
	handleStat(srw, &http.Request{Method: "POST", Form: url.Values{"camliversion": {"1"}, "blob1": {br.String()}}}, st)
	vrt.Assert(vStatRes != nil && len(vStatRes.Stat) == 1 && vStatRes.Stat[0].Ref == br && int(vStatRes.Stat[0].Size) == len(data),
		"what was uploaded is stat-ed with its size")
	// enumerate through the protocol
	erw := &vRW{}
	handleEnumerateBlobs(erw, &http.Request{Method: "GET", Form: url.Values{}}, st)
	pg := vParsePage(string(erw.body))
	n := 0
	for i, s := range pg.refs {
		if s == br.String() {
			n++
			vrt.Assert(pg.sizes[i] == vItoa(len(data)), "the enumeration lists the upload with its size")
		}
	}
	vrt.Assert(n == 1, "what was uploaded is found exactly once in the enumeration")
	got := st.Get(br)
	ok := len(got) == len(data)
	for i := 0; ok && i < len(got); i++ {
		if got[i] != data[i] {
			ok = false
		}
	}
	vrt.Assert(ok, "the stored bytes are the uploaded bytes")
	vrt.Cover("stored")
}
