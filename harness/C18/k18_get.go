package gethandler

// C18 (get handler): ServeBlobRef over a reference store: a stored blob of any size around the
// in-memory threshold (32 KiB) is served whole (or the requested range of it), byte for byte;
// an absent blob is a 404; a failing fetch is a 500 -- never a panic, never other bytes.
// net/http's ServeContent (range parsing, conditional requests) is the standard library and is
// replaced by a model that serves [vFrom, vTo) of the io.ReadSeeker it was handed.

import (
	"io"
	"net/http"
	"net/url"
	"time"

	"perkeep.org/internal/vmodel"
	"perkeep.org/internal/vrt"
	"perkeep.org/pkg/blob"
)

type vRW struct {
	hdr    http.Header
	status int
	body   []byte
}

func (w *vRW) Header() http.Header {
	if w.hdr == nil {
		w.hdr = http.Header{}
	}
	return w.hdr
}
func (w *vRW) WriteHeader(code int) {
	if w.status == 0 {
		w.status = code
	}
}
func (w *vRW) Write(p []byte) (int, error) {
	if w.status == 0 {
		w.status = 200
	}
	w.body = append(w.body, p...)
	return len(p), nil
}

var vFrom, vTo int64 // the byte range of the request (vTo < 0: none)

func vServeContent(w http.ResponseWriter, req *http.Request, name string, modtime time.Time, content io.ReadSeeker) {
	size, err := content.Seek(0, io.SeekEnd)
	if err != nil {
		w.WriteHeader(500)
		return
	}
	from, to := int64(0), size
	status := 200
	if vTo >= 0 {
		from, to, status = vFrom, vTo, 206
		if to > size {
			to = size
		}
	}
	if _, err := content.Seek(from, io.SeekStart); err != nil {
		w.WriteHeader(500)
		return
	}
	w.WriteHeader(status)
	buf := make([]byte, 4096)
	for n := to - from; n > 0; {
		k := int64(len(buf))
		if n < k {
			k = n
		}
		m, err := content.Read(buf[:k])
		w.Write(buf[:m])
		n -= int64(m)
		if err != nil || m == 0 {
			break
		}
	}
}

func VK18fGet() {
	vrt.Stub("net/http.ServeContent", vServeContent)
	vrt.Stub("perkeep.org/internal/httputil.ServeError", func(rw http.ResponseWriter, req *http.Request, err error) {
		rw.WriteHeader(500)
	})
	st := &vmodel.Store{}
	br := blob.VerifSmallRef(2)
	var data []byte
	switch vrt.Choice(6) {
	case 0:
	case 1:
		data = vrt.Bytes(1)
	case 2:
		data = vrt.Bytes(3) // any bytes: UTF-8 or not
	case 3:
		data = make([]byte, 32<<10-1)
	case 4:
		data = make([]byte, 32<<10) // exactly the threshold
		vrt.Cover("threshold")
	default:
		data = make([]byte, 32<<10+1)
	}
	if len(data) > 3 {
		for i := range data {
			data[i] = 'a' + byte(i%7)
		}
		data[len(data)-1] = byte(vrt.U8()) // a symbolic last byte
	}
	present := vrt.Bool()
	if present {
		st.Put(br, data)
	}
	failing := vrt.Bool()
	if failing {
		st.Fault = func(op string) bool { return true }
	}
	hdr := http.Header{}
	vFrom, vTo = 0, -1
	if vrt.Bool() {
		// a ranged GET: the last 2 bytes, or a range running past the end
		hdr.Set("Range", "bytes=x-y")
		vFrom = int64(len(data)) - 2
		if vFrom < 0 {
			vFrom = 0
		}
		vTo = int64(len(data)) + int64(vrt.Choice(2))
		vrt.Cover("range")
	}
	rw := &vRW{}
	req := &http.Request{Method: "GET", URL: &url.URL{Path: "/bs/camli/" + br.String()}, Header: hdr}
	ServeBlobRef(rw, req, br, st)
	switch {
	case failing:
		vrt.Assert(rw.status == 500, "a failing fetch is a server error")
	case !present:
		vrt.Assert(rw.status == 404, "an absent blob is not found")
	default:
		want := data
		if vTo >= 0 {
			vrt.Assert(rw.status == 206, "a ranged GET of a stored blob is served")
			want = data[vFrom:]
		} else {
			vrt.Assert(rw.status == 200, "a GET of a stored blob is served")
		}
		ok := len(rw.body) == len(want)
		for i := 0; ok && i < len(want); i++ {
			if rw.body[i] != want[i] {
				ok = false
			}
		}
		vrt.Assert(ok, "the served bytes are exactly the blob's (or the requested range of them)")
		vrt.Cover("served")
	}
}
