package encrypt

// C11: the encrypting store leaks no plaintext, detects tampering and is recoverable
// from the wrapped stores alone -- relative to an ideal authenticated cipher and a
// collision-free hash (both models; age and SHA-224 themselves are outside the claim).

import (
	"bytes"
	"context"
	"errors"
	"hash"
	"io"

	"perkeep.org/internal/vmodel"
	"perkeep.org/internal/vrt"
	"perkeep.org/pkg/blob"
)

// ---- ideal cipher: encrypt returns fresh unconstrained bytes and remembers the pair;
// decrypt returns the plaintext iff its input equals a recorded ciphertext bit for bit ----

type vPair struct{ plain, cipher []byte }

var vPairs []vPair

// vStandIn selects the concrete stand-in cipher (filler history, bulk meta data)
var vStandIn bool

func vEq(a, b []byte) bool {
	if len(a) != len(b) {
		return false
	}
	ok := true
	for i := range a {
		if a[i] != b[i] {
			ok = false
		}
	}
	return ok
}

func vEncrypt(ciphertext, plaintext *bytes.Buffer) error {
	p := append([]byte(nil), plaintext.Bytes()...)
	plaintext.Reset()
	var c []byte
	conc := vStandIn || len(p) > 200
	if conc {
		// fully concrete plaintext (filler history, bulk meta data): a concrete stand-in cipher keeps the run cheap
		c = make([]byte, len(p)+1)
		c[0] = version
		for i, b := range p {
			c[i+1] = b ^ 0x5a
		}
	} else {
		c = vrt.Bytes(len(p) + 2)
		for _, pr := range vPairs {
			vrt.Assume(!vEq(pr.cipher, c)) // fresh randomness: ciphertexts never repeat
		}
	}
	vPairs = append(vPairs, vPair{p, c})
	ciphertext.Write(c)
	return nil
}

func vDecrypt(plaintext, ciphertext *bytes.Buffer) error {
	x := ciphertext.Bytes()
	for _, pr := range vPairs {
		if vEq(pr.cipher, x) {
			plaintext.Write(pr.plain)
			return nil
		}
	}
	return errors.New("ideal cipher: authentication failed")
}

// ---- collision-free model hash: every distinct content gets its own ref ----

type vSeen struct {
	data []byte
	ref  blob.Ref
}

var vSeenRefs []vSeen
var vRefSeq uint16

func vRefOf(data []byte) blob.Ref {
	for _, s := range vSeenRefs {
		if vEq(s.data, data) {
			return s.ref
		}
	}
	vRefSeq++
	r := blob.VerifSmallRef16(vRefSeq)
	vSeenRefs = append(vSeenRefs, vSeen{append([]byte(nil), data...), r})
	return r
}

type vHash struct{ data []byte }

func (h *vHash) Write(p []byte) (int, error) { h.data = append(h.data, p...); return len(p), nil }
func (h *vHash) Sum(b []byte) []byte         { return b }
func (h *vHash) Reset()                      { h.data = nil }
func (h *vHash) Size() int                   { return 28 }
func (h *vHash) BlockSize() int              { return 64 }

func vInstall() {
	vPairs, vSeenRefs, vRefSeq = nil, nil, 0
	vStandIn = false
	vrt.Stub("(*perkeep.org/pkg/blobserver/encrypt.storage).encryptBlob", vEncrypt)
	vrt.Stub("(*perkeep.org/pkg/blobserver/encrypt.storage).decryptBlob", vDecrypt)
	vrt.Stub("perkeep.org/pkg/blob.RefFromBytes", vRefOf)
	vrt.Stub("(perkeep.org/pkg/blob.Ref).Hash", func() hash.Hash { return &vHash{} })
	vrt.Stub("(perkeep.org/pkg/blob.Ref).HashMatches", vHashMatches)
}

// receiver kept: HashMatches(r, h)
func vHashMatches(r blob.Ref, h hash.Hash) bool {
	return vRefOf(h.(*vHash).data) == r
}

func vNew(blobs, meta *vmodel.Store, index *vmodel.KV) *storage {
	return &storage{index: index, blobs: blobs, meta: meta, smallMeta: &metaBlobHeap{}}
}

func vReadAll(rc io.Reader) []byte {
	var out []byte
	buf := make([]byte, 16)
	for i := 0; i < 64; i++ {
		n, err := rc.Read(buf)
		out = append(out, buf[:n]...)
		if err != nil || n == 0 {
			break
		}
	}
	return out
}

func vIsCipher(x []byte) bool {
	for _, pr := range vPairs {
		if vEq(pr.cipher, x) {
			return true
		}
	}
	return false
}

// K11a + K02b(encrypt): receive; nothing but ciphertext goes below; corrupt uploads rejected,
// also when the ref is already stored.
func VK11aReceive() {
	vInstall()
	blobs, meta, index := &vmodel.Store{}, &vmodel.Store{}, &vmodel.KV{}
	s := vNew(blobs, meta, index)
	ctx := context.Background()
	p1 := vrt.Bytes(2)
	br1 := vRefOf(p1)
	sb, err := s.ReceiveBlob(ctx, br1, bytes.NewReader(p1))
	vrt.Assert(err == nil && sb.Ref == br1 && sb.Size == 2, "an intact blob is accepted with its true size")
	for i, r := range blobs.Refs {
		vrt.Assert(vIsCipher(blobs.Datas[i]), "only ciphertext is stored in the wrapped blob store")
		vrt.Assert(r == vRefOf(blobs.Datas[i]) && r != br1, "wrapped blobs are named by their ciphertext, never by the plaintext ref")
	}
	for i, r := range meta.Refs {
		vrt.Assert(vIsCipher(meta.Datas[i]), "only ciphertext is stored in the wrapped meta store")
		vrt.Assert(r == vRefOf(meta.Datas[i]) && r != br1, "meta blobs are named by their ciphertext")
	}
	rc, size, err := s.Fetch(ctx, br1)
	vrt.Assert(err == nil && size == 2 && vEq(vReadAll(rc), p1), "fetch returns exactly the original plaintext")
	// a corrupt upload: bytes that do not hash to the ref
	bad := vrt.Bytes(2)
	vrt.Assume(!vEq(bad, p1))
	nBlobs, nMeta := len(blobs.Refs), len(meta.Refs)
	existing := vrt.Choice(2) == 1
	target := br1
	if !existing {
		target = blob.VerifSmallRef16(60000) // a ref the store does not have; bad does not hash to it
	}
	_, err = s.ReceiveBlob(ctx, target, bytes.NewReader(bad))
	if existing {
		vrt.Assert(err != nil, "a corrupt re-upload of an existing ref is rejected (encrypt)")
	} else {
		vrt.Assert(err != nil, "bytes that do not hash to the ref are rejected")
	}
	vrt.Assert(len(blobs.Refs) == nBlobs && len(meta.Refs) == nMeta, "a rejected upload leaves no trace below")
	rc, _, err = s.Fetch(ctx, br1)
	vrt.Assert(err == nil && vEq(vReadAll(rc), p1), "the stored blob is unchanged by a rejected upload")
}

// K11b: any substitution of the stored ciphertext is detected.
func VK11bTamper() {
	vInstall()
	blobs, meta, index := &vmodel.Store{}, &vmodel.Store{}, &vmodel.KV{}
	s := vNew(blobs, meta, index)
	ctx := context.Background()
	p1, p2 := vrt.Bytes(2), vrt.Bytes(2)
	vrt.Assume(!vEq(p1, p2))
	br1, br2 := vRefOf(p1), vRefOf(p2)
	_, err := s.ReceiveBlob(ctx, br1, bytes.NewReader(p1))
	vrt.Assert(err == nil, "receive")
	_, err = s.ReceiveBlob(ctx, br2, bytes.NewReader(p2))
	vrt.Assert(err == nil, "receive")
	vrt.Assert(len(blobs.Refs) == 2, "two ciphertext blobs")
	// tamper with the ciphertext stored for br1
	switch vrt.Choice(4) {
	case 0: // arbitrary bytes of the same length
		x := vrt.Bytes(len(blobs.Datas[0]))
		vrt.Assume(!vEq(x, blobs.Datas[0]))
		blobs.Datas[0] = x
	case 1: // truncation
		blobs.Datas[0] = blobs.Datas[0][:len(blobs.Datas[0])-1]
	case 2: // extension
		blobs.Datas[0] = append(append([]byte(nil), blobs.Datas[0]...), vrt.U8())
	default: // blob-for-blob swap with another valid ciphertext
		blobs.Datas[0], blobs.Datas[1] = blobs.Datas[1], blobs.Datas[0]
	}
	rc, _, err := s.Fetch(ctx, br1)
	if err == nil {
		vrt.Assert(vEq(vReadAll(rc), p1), "a fetch that succeeds returns exactly the original plaintext")
		vrt.Assert(false, "modified, truncated, extended or swapped ciphertext is detected")
	}
	_ = br2
}

// K11c: the plaintext -> ciphertext mapping is recoverable from the wrapped stores alone.
func VK11cRecover() {
	vInstall()
	blobs, meta, index := &vmodel.Store{}, &vmodel.Store{}, &vmodel.KV{}
	s := vNew(blobs, meta, index)
	ctx := context.Background()
	n := 1 + vrt.Choice(2)
	var refs []blob.Ref
	var datas [][]byte
	for i := 0; i < n; i++ {
		p := vrt.Bytes(1 + i)
		br := vRefOf(p)
		_, err := s.ReceiveBlob(ctx, br, bytes.NewReader(p))
		vrt.Assert(err == nil, "receive")
		refs = append(refs, br)
		datas = append(datas, p)
	}
	// restart with the local meta index lost
	index2 := &vmodel.KV{}
	s2 := vNew(blobs, meta, index2)
	err := s2.readAllMetaBlobs()
	vrt.Assert(err == nil, "meta re-scan succeeds")
	for i := range refs {
		v1, _ := index.Get(refs[i].String())
		v2, e2 := index2.Get(refs[i].String())
		vrt.Assert(e2 == nil && v1 == v2, "the re-scan rebuilds every plain -> size/ciphertext entry")
		rc, size, err := s2.Fetch(ctx, refs[i])
		vrt.Assert(err == nil && int(size) == len(datas[i]) && vEq(vReadAll(rc), datas[i]), "every blob is served after the re-scan")
	}
}

// K11d: compaction of small meta blobs keeps everything recoverable, also when the upload
// of the packed meta blob fails or the process dies between the two steps.
func VK11dCompaction() {
	vInstall()
	blobs, meta, index := &vmodel.Store{}, &vmodel.Store{}, &vmodel.KV{}
	s := vNew(blobs, meta, index)
	ctx := context.Background()
	// SmallMetaCountLimit small meta blobs already exist (concrete filler history)
	vStandIn = true
	for i := 0; i < SmallMetaCountLimit; i++ {
		p := []byte{byte(i), 7}
		br := vRefOf(p)
		_, err := s.ReceiveBlob(ctx, br, bytes.NewReader(p))
		vrt.Assert(err == nil, "filler receive")
	}
	vStandIn = false
	vrt.Assert(len(meta.Refs) == SmallMetaCountLimit, "one small meta blob per received blob")
	fail := vrt.Choice(3) // 0: healthy, 1: the packed meta upload fails, 2: the removal of the small ones fails
	calls := 0
	meta.Fault = func(op string) bool {
		if fail == 1 && op == "receive" {
			calls++
			return calls == 2 // 1st receive = the new single meta blob, 2nd = the packed one
		}
		return fail == 2 && op == "remove"
	}
	p := vrt.Bytes(2)
	vrt.Assume(p[1] != 7) // differs from every filler blob
	br := vRefOf(p)
	_, err := s.ReceiveBlob(ctx, br, bytes.NewReader(p)) // triggers compaction (runs in a goroutine)
	vrt.Assert(err == nil, "the receive that triggers compaction succeeds")
	vrt.Quiesce() // let the compaction goroutine finish
	meta.Fault = nil
	// restart with the local meta index lost, at this moment
	index2 := &vmodel.KV{}
	s2 := vNew(blobs, meta, index2)
	rerr := s2.readAllMetaBlobs()
	vrt.Assert(rerr == nil, "meta re-scan succeeds after compaction")
	vrt.Assert(len(index2.Keys) <= len(index.Keys), "re-scan invents no mapping")
	vrt.Assert(len(index2.Keys) >= len(index.Keys), "every mapping is recoverable after compaction (count)")
	for i, k := range index.Keys {
		v2, e2 := index2.Get(k)
		vrt.Assert(e2 == nil && v2 == index.Vals[i], "every mapping is recoverable after compaction")
	}
	rc, _, ferr := s2.Fetch(ctx, br)
	vrt.Assert(ferr == nil && vEq(vReadAll(rc), p), "the newest blob is served after the re-scan")
}

// K11e: recoverability across a failed upload. The k-th call into the ciphertext store, the meta
// store or the local index fails during a receive; the client retries and is acknowledged; the
// local index is then lost. Every acknowledged blob must be served from the wrapped stores alone.
func VK11eRecoverAfterFault() {
	vInstall()
	blobs, meta, index := &vmodel.Store{}, &vmodel.Store{}, &vmodel.KV{}
	s := vNew(blobs, meta, index)
	ctx := context.Background()
	pa, pb := vrt.Bytes(1), vrt.Bytes(2)
	ra, rb := vRefOf(pa), vRefOf(pb)
	haveA := vrt.Bool()
	if haveA {
		_, err := s.ReceiveBlob(ctx, ra, bytes.NewReader(pa))
		vrt.Assert(err == nil, "receive")
	}
	k := vrt.Choice(7) // the k-th lower-layer call of the upload fails; 6 = none
	c, on := 0, true
	fault := func(op string) bool {
		if !on {
			return false
		}
		c++
		return c-1 == k
	}
	blobs.Fault, meta.Fault, index.Fault = fault, fault, fault
	_, err := s.ReceiveBlob(ctx, rb, bytes.NewReader(pb))
	on = false
	vrt.Assert(c <= 6, "the fault positions cover every lower-layer call of an upload")
	if err != nil {
		vrt.Cover("upload failed")
		_, err = s.ReceiveBlob(ctx, rb, bytes.NewReader(pb))
		vrt.Assert(err == nil, "the retry of a failed upload succeeds")
	}
	// restart with the local meta index lost
	index2 := &vmodel.KV{}
	s2 := vNew(blobs, meta, index2)
	rerr := s2.readAllMetaBlobs()
	vrt.Assert(rerr == nil, "meta re-scan succeeds")
	rc, size, ferr := s2.Fetch(ctx, rb)
	vrt.Assert(ferr == nil && int(size) == len(pb) && vEq(vReadAll(rc), pb), "an acknowledged upload (after a failed attempt) is served after the loss of the local index")
	if haveA {
		rc, size, ferr := s2.Fetch(ctx, ra)
		vrt.Assert(ferr == nil && int(size) == len(pa) && vEq(vReadAll(rc), pa), "an earlier blob is served after the loss of the local index")
	}
}
