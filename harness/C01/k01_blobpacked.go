package blobpacked

import (
	"perkeep.org/internal/vrt"
)

// VK01gCapOffsetLength: the length clamp is exact in unbounded arithmetic for
// every uint32 size and int64 offset/length (the wrapped sum is harmless here).
func VK01gCapOffsetLength() {
	size := vrt.U32()
	offset, length := vrt.I64(), vrt.I64()
	n, err := capOffsetLength(size, offset, length)
	if offset < 0 || length < 0 || offset > int64(size) {
		vrt.Assert(err != nil, "negative or out-of-range arguments are rejected")
		return
	}
	vrt.Assert(err == nil, "in-range arguments accepted")
	// remaining bytes after offset
	rem := int64(size) - offset
	want := length
	if rem < length {
		want = rem
	}
	vrt.Assert(n == want, "capOffsetLength = min(length, size-offset)")
}
