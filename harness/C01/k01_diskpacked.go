package diskpacked

// C01 (K01g): ranged fetch of the packed disk store returns exactly
// M[b][offset : min(offset+length, size)] for every int64 offset/length.

import (
	"context"
	"errors"
	"io"
	"os"

	"perkeep.org/internal/vmodel"
	"perkeep.org/internal/vrt"
	"perkeep.org/pkg/blob"
)

// ---- a byte-array model of *os.File (contract: ReadAt/WriteAt/Write/Seek/Truncate/Sync) ----

type vFile struct {
	data   []byte
	name   string
	pos    int64
	synced int
	closed bool
}

var vFiles []*os.File
var vFileModels []*vFile

func vFileOf(f *os.File) *vFile {
	for i, x := range vFiles {
		if x == f {
			return vFileModels[i]
		}
	}
	panic("vFile: unknown *os.File")
}

func vNewFile(name string, data []byte) *os.File {
	f := new(os.File)
	vFiles = append(vFiles, f)
	vFileModels = append(vFileModels, &vFile{data: data, name: name})
	return f
}

func vInstallFileStubs() {
	vFiles, vFileModels = nil, nil
	vrt.Stub("(*os.File).Name", func(f *os.File) string { return vFileOf(f).name })
	vrt.Stub("(*os.File).ReadAt", func(f *os.File, p []byte, off int64) (int, error) {
		m := vFileOf(f)
		if off < 0 {
			return 0, errors.New("negative offset")
		}
		if off >= int64(len(m.data)) {
			return 0, io.EOF
		}
		n := copy(p, m.data[off:])
		if n < len(p) {
			return n, io.EOF
		}
		return n, nil
	})
	// expvar bookkeeping is not the subject
	vrt.Stub("(*expvar.Map).Add", func(key string, delta int64) {})
	vrt.Stub("(*expvar.Map).Get", func(key string) any { return nil })
}

func vReadAll(rc io.Reader, max int) []byte {
	buf := make([]byte, max)
	n := 0
	for n < max {
		k, err := rc.Read(buf[n:])
		n += k
		if err != nil || k == 0 {
			break
		}
	}
	return buf[:n]
}

// VK01gSubFetch: pack file = [hdrA][A: 4 bytes][hdrB][B: 4 bytes]; index rows for A and B.
func VK01gSubFetch() {
	vInstallFileStubs()
	a, b := blob.VerifSmallRef(1), blob.VerifSmallRef(2)
	da, db := vrt.Bytes(4), vrt.Bytes(4)
	var pack []byte
	hdr := func(r blob.Ref, n int) { pack = append(pack, []byte("["+r.String()+" 4]")...) }
	hdr(a, 4)
	offA := len(pack)
	pack = append(pack, da...)
	hdr(b, 4)
	offB := len(pack)
	pack = append(pack, db...)
	kv := &vmodel.KV{}
	kv.Set(a.String(), blobMeta{0, int64(offA), 4}.String())
	kv.Set(b.String(), blobMeta{0, int64(offB), 4}.String())
	s := &storage{root: "/r", index: kv, maxFileSize: 1 << 20, fds: []*os.File{vNewFile("/r/pack-00000.blobs", pack)}}

	offset, length := vrt.I64(), vrt.I64()
	rc, err := s.SubFetch(context.Background(), a, offset, length)
	if offset < 0 || length < 0 {
		vrt.Assert(err != nil, "negative offset/length is an error")
		return
	}
	if offset > 4 {
		vrt.Assert(err != nil, "offset beyond the blob is an error")
		return
	}
	vrt.Assert(err == nil, "in-range SubFetch succeeds")
	got := vReadAll(rc, 40)
	// reference in unbounded arithmetic: end = min(offset+length, size), no wrap
	end := int64(4)
	if length < 4-offset {
		end = offset + length
	}
	vrt.Assert(int64(len(got)) == end-offset, "SubFetch returns min(length, size-offset) bytes")
	for i := 0; i < len(got) && int64(i) < end-offset; i++ {
		vrt.Assert(got[i] == da[offset+int64(i)], "SubFetch bytes are the blob's own bytes")
	}
}

// VK01gFetch: plain Fetch returns the whole blob with its true size.
func VK01gFetch() {
	vInstallFileStubs()
	a := blob.VerifSmallRef(1)
	da := vrt.Bytes(3)
	pack := append([]byte("["+a.String()+" 3]"), da...)
	off := len(pack) - 3
	pack = append(pack, []byte("[trailing")...)
	kv := &vmodel.KV{}
	kv.Set(a.String(), blobMeta{0, int64(off), 3}.String())
	s := &storage{root: "/r", index: kv, maxFileSize: 1 << 20, fds: []*os.File{vNewFile("/r/pack-00000.blobs", pack)}}
	rc, size, err := s.Fetch(context.Background(), a)
	vrt.Assert(err == nil && size == 3, "Fetch of a present blob reports its true size")
	got := vReadAll(rc, 20)
	vrt.Assert(len(got) == 3 && got[0] == da[0] && got[1] == da[1] && got[2] == da[2], "Fetch returns the blob byte for byte")
	_, _, err = s.Fetch(context.Background(), blob.VerifSmallRef(9))
	vrt.Assert(errors.Is(err, os.ErrNotExist), "Fetch of an absent blob is os.ErrNotExist")
}
