package proxycache

// C01 (wrapper): a proxy cache over an origin behaves like the origin's map; evictions from a
// cache of any small byte budget never change a visible result.

import (
	"perkeep.org/internal/vmodel"
	"perkeep.org/internal/vrt"
)

func VK01eProxycache() {
	blobs := vmodel.SmallBlobs(3)
	origin := &vmodel.Store{}
	var have uint
	for i := range blobs {
		if vrt.Bool() {
			origin.Put(blobs[i].Ref, []byte(blobs[i].Data))
			have |= 1 << uint(i)
		}
	}
	sto := New(int64(2*vrt.Choice(3)), &vmodel.Store{}, origin) // cache budget 0, 2 or 4 bytes
	vmodel.SeqHistory(sto, blobs, have, 2+vrt.Tier())
	vrt.Cover("done")
}
