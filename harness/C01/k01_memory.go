package memory

// C01: the in-memory store is the reference map.

import (
	"hash"

	"perkeep.org/internal/vmodel"
	"perkeep.org/internal/vrt"
	"perkeep.org/pkg/blob"
)

func VK01hMemory() {
	// the digest comparison is C02's subject: small test refs, HashMatches stubbed to accept
	vrt.Stub("(perkeep.org/pkg/blob.Ref).HashMatches", func(r blob.Ref, h hash.Hash) bool { return true })
	blobs := vmodel.SmallBlobs(3)
	vmodel.SeqHistory(&Storage{}, blobs, 0, 3+vrt.Tier())
	vrt.Cover("done")
}
