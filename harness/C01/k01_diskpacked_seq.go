package diskpacked

// C01: the packed disk store (over the disk model of k03_diskpacked.go) is the reference map for
// every history of 3..4 operations, with and without pack roll-over.

import (
	"perkeep.org/internal/vmodel"
	"perkeep.org/internal/vrt"
)

func VK01DiskpackedSeq() {
	vNoPunch = vrt.Tier() == 0
	vInstall()
	max := int64(1 << 20)
	if vrt.Bool() {
		max = 70
	}
	blobs := []vmodel.LinBlob{{Ref: vB0, Data: "a"}, {Ref: vB1, Data: "bb"}, {Ref: vB2, Data: ""}}
	s := vOpen(&vmodel.KV{}, max)
	vmodel.NoSweep = true // ranged fetches of this store: VK01gSubFetch / VK01gFetch at full 64-bit width
	vmodel.SeqHistory(s, blobs, 0, 3)
	vrt.Cover("done")
}
