package shard

// C01 (wrapper): a sharded store over 1..3 shards behaves like one map and routes every
// operation on a blob to the same shard.

import (
	"perkeep.org/internal/vmodel"
	"perkeep.org/internal/vrt"
	"perkeep.org/pkg/blobserver"
)

func VK01cShard() {
	blobs := vmodel.SmallBlobs(3)
	n := 1 + vrt.Choice(3)
	sto := &shardStorage{}
	var subs []*vmodel.Store
	for i := 0; i < n; i++ {
		s := &vmodel.Store{}
		subs = append(subs, s)
		sto.shards = append(sto.shards, blobserver.Storage(s))
		sto.shardPrefixes = append(sto.shardPrefixes, "s")
	}
	have := vmodel.SeqHistory(sto, blobs, 0, 3)
	for i := range blobs {
		k := sto.shardNum(blobs[i].Ref)
		vrt.Assert(int(k) < n, "shardNum is within range")
		for j, s := range subs {
			if uint32(j) != k {
				vrt.Assert(!s.Has(blobs[i].Ref), "a blob only ever lives in the shard its ref maps to")
			} else {
				vrt.Assert(s.Has(blobs[i].Ref) == (have&(1<<uint(i)) != 0), "the blob's shard holds it exactly when it is stored")
			}
		}
	}
	vrt.Cover("done")
}
