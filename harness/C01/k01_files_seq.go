package files

// C01: the file-per-blob store (over the model VFS of k03_files.go) is the reference map for
// every history of 2..3 operations.

import (
	"perkeep.org/internal/vmodel"
	"perkeep.org/internal/vrt"
)

func VK01FilesSeq() {
	blobs := vmodel.SmallBlobs(3)
	ds := NewStorage(newVFS(), "/root")
	vmodel.SeqHistory(ds, blobs, 0, 3)
	vrt.Cover("done")
}
