package files

// C01: the file-per-blob store (over the model VFS of k03_files.go) is the reference map for
// every history of 2..3 operations.

import (
	"perkeep.org/internal/vmodel"
	"perkeep.org/internal/vrt"
)

func VK01FilesSeq() {
	blobs := vmodel.SmallBlobs(3)
	ds := NewStorage(newVFS(), "/root")
	vmodel.NoSweep = true
	vmodel.SeqHistory(ds, blobs, 0, 3)
	vrt.Cover("done")
}

// VK01FilesSubFetch: every ranged fetch of stored, removed and never-stored blobs.
func VK01FilesSubFetch() {
	blobs := vmodel.SmallBlobs(3)
	ds := NewStorage(newVFS(), "/root")
	vmodel.NoSweep = true
	have := vmodel.SeqHistory(ds, blobs, 0, 1) // one arbitrary operation first
	for i := 0; i < 2; i++ {
		if vrt.Bool() {
			op := vmodel.LinOp{Kind: vmodel.LinReceive, Blob: i}
			vmodel.LinRun(ds, blobs, &op)
			vrt.Assert(op.Err == nil, "receive succeeds")
			have |= 1 << uint(i)
		}
	}
	vmodel.SubFetchSweep(ds, blobs, have)
	vrt.Cover("done")
}
