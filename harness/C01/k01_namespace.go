package namespace

// C01 (wrapper): a namespace over a shared master store behaves like a map of its own, whatever
// else the master holds.

import (
	"perkeep.org/internal/vmodel"
	"perkeep.org/internal/vrt"
)

func VK01eNamespace() {
	blobs := vmodel.SmallBlobs(3)
	master := &vmodel.Store{}
	// blobs of other namespaces in the shared master: invisible here
	for _, i := range []int{1, 2} {
		if vrt.Bool() {
			master.Put(blobs[i].Ref, []byte(blobs[i].Data))
		}
	}
	ns := &nsto{inventory: &vmodel.KV{}, master: master}
	vmodel.SeqHistory(ns, blobs, 0, 3)
	vrt.Cover("done")
}
