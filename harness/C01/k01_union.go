package union

// C01 (wrapper): the read-only union of stores reads like the union of their maps and refuses
// writes.

import (
	"context"
	"strings"

	"perkeep.org/internal/vmodel"
	"perkeep.org/internal/vrt"
	"perkeep.org/pkg/blob"
	"perkeep.org/pkg/blobserver"
)

// roView hides the write methods' effects from the sequential driver: only reads are chosen.
func VK01eUnion() {
	blobs := vmodel.SmallBlobs(3)
	a, b := &vmodel.Store{}, &vmodel.Store{}
	var have uint
	for i := range blobs {
		switch vrt.Choice(4) {
		case 1:
			a.Put(blobs[i].Ref, []byte(blobs[i].Data))
			have |= 1 << uint(i)
		case 2:
			b.Put(blobs[i].Ref, []byte(blobs[i].Data))
			have |= 1 << uint(i)
		case 3:
			a.Put(blobs[i].Ref, []byte(blobs[i].Data))
			b.Put(blobs[i].Ref, []byte(blobs[i].Data))
			have |= 1 << uint(i)
		}
	}
	sto := &unionStorage{subsets: []blobserver.Storage{a, b}}
	_, err := sto.ReceiveBlob(context.Background(), blobs[0].Ref, strings.NewReader(blobs[0].Data))
	vrt.Assert(err != nil, "the union refuses writes")
	vrt.Assert(sto.RemoveBlobs(context.Background(), []blob.Ref{blobs[0].Ref}) != nil, "the union refuses removals")
	vmodel.SeqReads(sto, blobs, have, 2)
	vrt.Cover("done")
}
