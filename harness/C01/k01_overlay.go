package overlay

// C01 (wrapper): the overlay store behaves like the map (lower minus tombstones) + upper for
// every history of 3 operations from any initial contents of the lower layer.

import (
	"perkeep.org/internal/vmodel"
	"perkeep.org/internal/vrt"
)

func VK01dOverlay() {
	blobs := vmodel.SmallBlobs(3)
	lower, upper := &vmodel.Store{}, &vmodel.Store{}
	var have uint
	// the lower layer is filled in a scrambled order
	for _, i := range []int{2, 0, 1} {
		if vrt.Bool() {
			lower.Put(blobs[i].Ref, []byte(blobs[i].Data))
			have |= 1 << uint(i)
		}
	}
	sto := &overlayStorage{lower: lower, upper: upper, deleted: &vmodel.KV{}}
	lowerBefore := len(lower.Refs)
	vmodel.SeqHistory(sto, blobs, have, 2+vrt.Tier())
	vrt.Assert(len(lower.Refs) == lowerBefore, "the lower layer is never written")
	vrt.Cover("done")
}
