package overlay

// C01 (wrapper): the overlay store behaves like the map (lower minus tombstones) + upper for
// every history of 3 operations from any initial contents of the lower layer.

import (
	"perkeep.org/internal/vmodel"
	"perkeep.org/internal/vrt"
)

func VK01dOverlay() {
	blobs := vmodel.SmallBlobs(3)
	lower, upper := &vmodel.Store{}, &vmodel.Store{}
	var have uint
	// the lower layer is filled in a scrambled order
	for _, i := range []int{2, 0, 1} {
		if vrt.Bool() {
			lower.Put(blobs[i].Ref, []byte(blobs[i].Data))
			have |= 1 << uint(i)
		}
	}
	sto := &overlayStorage{lower: lower, upper: upper, deleted: &vmodel.KV{}}
	lowerBefore := len(lower.Refs)
	vmodel.SeqHistory(sto, blobs, have, 2+vrt.Tier())
	vrt.Assert(len(lower.Refs) == lowerBefore, "the lower layer is never written")
	vrt.Cover("done")
}

// VK01dOverlayReads: 4 blobs, each absent / in the lower layer / in the upper layer / in the lower
// layer and deleted through the overlay; one read (fetch, stat, or enumerate with any cursor and
// limit) must answer like the map (lower minus tombstones) + upper.
func VK01dOverlayReads() {
	blobs := vmodel.SmallBlobs(4)
	lower, upper, del := &vmodel.Store{}, &vmodel.Store{}, &vmodel.KV{}
	var have uint
	for _, i := range []int{2, 0, 3, 1} {
		switch vrt.Choice(4) {
		case 1:
			lower.Put(blobs[i].Ref, []byte(blobs[i].Data))
			have |= 1 << uint(i)
		case 2:
			upper.Put(blobs[i].Ref, []byte(blobs[i].Data))
			have |= 1 << uint(i)
		case 3:
			lower.Put(blobs[i].Ref, []byte(blobs[i].Data))
			del.Set(blobs[i].Ref.String(), "1")
		}
	}
	sto := &overlayStorage{lower: lower, upper: upper, deleted: del}
	vmodel.SeqReads(sto, blobs, have, 1)
	vrt.Cover("done")
}
