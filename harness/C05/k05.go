package index

// C05: the index is a function of the set of blobs, not of their arrival order
// (dependency bookkeeping: needs / neededBy / readyReindex / pending / missing rows).
// C06 (K06b): the deletion state answered live equals what a restart loads.

import (
	"bytes"
	"context"
	"hash"
	"io"
	"os"
	"time"

	"perkeep.org/internal/vmodel"
	"perkeep.org/internal/vrt"
	"perkeep.org/pkg/blob"
	"perkeep.org/pkg/jsonsign"
	"perkeep.org/pkg/schema"
	"perkeep.org/pkg/sorted"
)

// ---- abstract world: blob i needs (must fetch) the blobs deps[i] while being indexed ----

type vWorld struct {
	refs []blob.Ref
	deps [][]int
	// metaDeps[i]: blobs whose *index rows* (meta row) blob i needs, the way a delete claim needs
	// its target to be indexed (populateDeleteClaim: GetBlobMeta, noteNeeded, errMissingDep)
	metaDeps [][]int
}

var vW *vWorld

func (w *vWorld) idx(br blob.Ref) int {
	for i, r := range w.refs {
		if r == br {
			return i
		}
	}
	return -1
}

// model of populateMutationMap: rows are a pure function of the blob and of the blobs it
// fetched; a missing fetch dependency is reported exactly like the real one does.
func vPopulate(ix *Index, ctx context.Context, fetcher *missTrackFetcher, br blob.Ref, sniffer *BlobSniffer) (*mutationMap, error) {
	i := vW.idx(br)
	mm := &mutationMap{kv: map[string]string{"meta:" + br.String(): "1|application/octet-stream"}}
	missing := false
	for _, d := range vW.deps[i] {
		rc, _, err := fetcher.Fetch(ctx, vW.refs[d])
		if err != nil {
			missing = true
		} else {
			rc.Close()
			mm.kv["row:"+br.String()+"|"+vW.refs[d].String()] = "dep"
		}
	}
	indexMiss := false
	if i < len(vW.metaDeps) {
		for _, d := range vW.metaDeps[i] {
			if _, err := ix.s.Get("meta:" + vW.refs[d].String()); err != nil {
				// an index miss: noted by the populate function itself, reported as errMissingDep
				if nerr := ix.noteNeeded(br, vW.refs[d]); nerr != nil {
					return nil, nerr
				}
				indexMiss = true
			} else {
				mm.kv["row:"+br.String()+"|"+vW.refs[d].String()] = "metadep"
			}
		}
	}
	if missing {
		mm.kv["have:"+br.String()] = "1"
		return mm, errMissingDep
	}
	if indexMiss {
		// populateMutationMap: an index miss alone yields the partial map and no error
		mm.kv["have:"+br.String()] = "1"
		return mm, nil
	}
	mm.kv["have:"+br.String()] = "1|indexed"
	return mm, nil
}

type vHash struct{}

func (vHash) Write(p []byte) (int, error) { return len(p), nil }
func (vHash) Sum(b []byte) []byte         { return b }
func (vHash) Reset()                      {}
func (vHash) Size() int                   { return 28 }
func (vHash) BlockSize() int              { return 64 }

func vInstall() {
	vrt.Stub("(*perkeep.org/pkg/index.Index).populateMutationMap", vPopulate)
	vrt.Stub("(*perkeep.org/pkg/index.BlobSniffer).Parse", func(sn *BlobSniffer) {})
	vrt.Stub("(perkeep.org/pkg/blob.Ref).Hash", func() hash.Hash { return vHash{} })
	vrt.Stub("(perkeep.org/pkg/blob.Ref).HashMatches", func(h hash.Hash) bool { return true })
}

type vSource struct{ *vmodel.Store }

func vNewIndex(kv *vmodel.KV, src *vmodel.Store) *Index {
	ix, err := New(kv)
	vrt.Assert(err == nil, "index.New succeeds")
	ix.blobSource = src
	return ix
}

func vDeliver(ix *Index, src *vmodel.Store, br blob.Ref) {
	data := []byte{byte(vW.idx(br))}
	src.Put(br, data)
	_, err := ix.ReceiveBlob(context.Background(), br, bytes.NewReader(data))
	vrt.Assert(err == nil, "the index accepts the blob (possibly deferring it)")
}

func vPerm(n int) []int {
	// a permutation of 0..n-1 by successive choices
	rest := make([]int, n)
	for i := range rest {
		rest[i] = i
	}
	var out []int
	for len(rest) > 0 {
		k := vrt.Choice(len(rest))
		out = append(out, rest[k])
		rest = append(rest[:k:k], rest[k+1:]...)
	}
	return out
}

func vDump(kv *vmodel.KV) []string {
	var out []string
	for i, k := range kv.Keys {
		out = append(out, k+" => "+kv.Vals[i])
	}
	return out
}

func vSameDump(a, b []string) bool {
	if len(a) != len(b) {
		return false
	}
	for i := range a {
		if a[i] != b[i] {
			return false
		}
	}
	return true
}

// K05a: all dependency DAGs over n blobs, all arrival orders, optional absent blob,
// optional duplicate delivery, optional restart in the middle.
func VK05aOrderIndependence() {
	vInstall()
	n := 3 + vrt.Tier()
	w := &vWorld{}
	for i := 0; i < n; i++ {
		w.refs = append(w.refs, blob.VerifSmallRef(byte(10+i)))
		var d []int
		for j := 0; j < i; j++ {
			// fetch dependencies are plain blobs (chunks, keys, static sets): a blob that is fetched
			// while indexing another one is itself indexed without fetching anything
			if len(w.deps[j]) == 0 && vrt.Choice(2) == 1 {
				d = append(d, j)
			}
		}
		w.deps = append(w.deps, d)
	}
	vW = w
	absent := vrt.Choice(n + 1) // this blob never arrives (n: all arrive)
	order := vPerm(n)
	restartAt := vrt.Choice(n + 2) // restart before the k-th arrival (n+1: never)
	dupAt := vrt.Choice(n + 1)     // the k-th arrival is delivered twice (n: never)

	kv, src := &vmodel.KV{}, &vmodel.Store{}
	ix := vNewIndex(kv, src)
	for k, i := range order {
		if k == restartAt {
			vrt.Quiesce()
			ix = vNewIndex(kv, src) // new process over the same persisted rows and blobs
		}
		if i == absent {
			continue
		}
		vDeliver(ix, src, w.refs[i])
		if k == dupAt {
			vDeliver(ix, src, w.refs[i])
		}
	}
	vrt.Quiesce() // asynchronous out-of-order indexing drains

	// the same set delivered in dependency order to a fresh index
	kv2, src2 := &vmodel.KV{}, &vmodel.Store{}
	ix2 := vNewIndex(kv2, src2)
	for i := 0; i < n; i++ {
		if i != absent {
			vDeliver(ix2, src2, w.refs[i])
		}
	}
	vrt.Quiesce()
	vrt.Assert(vSameDump(vDump(kv), vDump(kv2)), "the index rows depend on the set of blobs only, not on arrival order, duplicates or restarts")

	// blobs whose dependencies all arrived are indexed; the others are remembered as pending
	arrived := func(i int) bool { return i != absent }
	var ready func(i int) bool
	ready = func(i int) bool {
		if !arrived(i) {
			return false
		}
		for _, d := range w.deps[i] {
			if !arrived(d) {
				return false
			}
		}
		return true
	}
	for i := 0; i < n; i++ {
		have, err := kv.Get("have:" + w.refs[i].String())
		switch {
		case ready(i):
			vrt.Assert(err == nil && have == "1|indexed", "a blob whose dependencies all arrived is fully indexed")
			vrt.Mech(len(ix.needs[w.refs[i]]) == 0, "an indexed blob needs nothing")
		case arrived(i):
			vrt.Assert(err != nil || have != "1|indexed", "a blob with an absent dependency is not marked indexed")
			vrt.Assert(len(ix.needs[w.refs[i]]) > 0, "a blob whose dependency never arrived is remembered as pending, not dropped")
		}
	}
	vrt.Mech(len(ix.readyReindex) == 0 && len(ix.pending) == 0, "nothing is left half-way (readyReindex, pending empty)")
}

// K05d: index-level dependencies (a delete claim needs its target's rows; a delete of that delete
// claim needs the claim's rows): a blob that misses such a dependency is committed partially
// and indexed again when the dependency arrives. All arrival orders, an optional absent blob, an
// optional restart: the rows equal those of the dependency-order delivery.
func VK05dMetaDependencies() {
	vInstall()
	w := &vWorld{}
	for i := 0; i < 3; i++ {
		w.refs = append(w.refs, blob.VerifSmallRef(byte(10+i)))
	}
	w.deps = [][]int{nil, nil, nil}
	w.metaDeps = [][]int{nil, {0}, {1 - vrt.Choice(2)}} // 2 needs 1 (delete of a delete) or 0 (second delete of the target)
	vW = w
	absent := vrt.Choice(4)
	order := vPerm(3)
	restartAt := vrt.Choice(5)
	kv, src := &vmodel.KV{}, &vmodel.Store{}
	ix := vNewIndex(kv, src)
	for k, i := range order {
		if k == restartAt {
			vrt.Quiesce()
			ix = vNewIndex(kv, src)
			vrt.Cover("restart")
		}
		if i == absent {
			continue
		}
		vDeliver(ix, src, w.refs[i])
	}
	vrt.Quiesce()
	kv2, src2 := &vmodel.KV{}, &vmodel.Store{}
	ix2 := vNewIndex(kv2, src2)
	for i := 0; i < 3; i++ {
		if i != absent {
			vDeliver(ix2, src2, w.refs[i])
		}
	}
	vrt.Quiesce()
	vrt.Assert(vSameDump(vDump(kv), vDump(kv2)), "with index-level dependencies the rows depend on the set of blobs only, not on arrival order or restarts")
	if absent == 3 {
		for i := range w.refs {
			have, err := kv.Get("have:" + w.refs[i].String())
			vrt.Assert(err == nil && have == "1|indexed", "once every blob arrived, every blob is fully indexed (index-level dependencies)")
		}
		vrt.Assert(len(ix.needs) == 0 && len(ix.neededBy) == 0, "no pending dependency is left once everything arrived (index-level dependencies)")
	}
}

// K05b: a later arrival of the missing blob completes the pending one, also after a restart.
func VK05bLateDependency() {
	vInstall()
	w := &vWorld{refs: []blob.Ref{blob.VerifSmallRef(10), blob.VerifSmallRef(11), blob.VerifSmallRef(12)}, deps: [][]int{nil, nil, {0, 1}}}
	vW = w
	kv, src := &vmodel.KV{}, &vmodel.Store{}
	ix := vNewIndex(kv, src)
	order := vPerm(3)
	restartAt := vrt.Choice(4)
	for k, i := range order {
		if k == restartAt {
			vrt.Quiesce()
			ix = vNewIndex(kv, src)
		}
		vDeliver(ix, src, w.refs[i])
	}
	vrt.Quiesce()
	for i := range w.refs {
		have, err := kv.Get("have:" + w.refs[i].String())
		vrt.Assert(err == nil && have == "1|indexed", "once every blob arrived, every blob is indexed")
	}
	for _, k := range kv.Keys {
		vrt.Assert(len(k) < 8 || k[:8] != "missing|", "no missing-dependency row survives once everything arrived")
	}
	vrt.Assert(len(ix.needs) == 0 && len(ix.neededBy) == 0, "no pending dependency is left once everything arrived")
}

// ---- K06b: deletion state: live (commit -> updateDeletesCache) vs reopened (index.New) ----

func vDeleteClaim(br, target blob.Ref, when time.Time) schema.Claim {
	b := schema.VerifNewBlob(br, schema.VerifBlobDesc{Type: "claim", ClaimType: "delete", Target: target, Signed: true, ClaimDate: when})
	c, ok := b.AsClaim()
	vrt.Assert(ok, "delete claim is a claim")
	return c
}

func VK06bDeletesAcrossRestart() { vDeletesAcrossRestart(false) }

// K06b': the batch commit of one of the delete claims fails (a transient KV failure): the call
// reports the error, no row is written, and the live index must not remember the deletion either.
func VK06bDeletesCommitFault() { vDeletesAcrossRestart(true) }

func vDeletesAcrossRestart(fault bool) {
	kv := &vmodel.KV{}
	ix, err := New(kv)
	vrt.Assert(err == nil, "index.New succeeds")
	// possible targets: a permanode, a file schema blob (not deletable: a delete claim on it is
	// indexed but has no effect), and every delete claim indexed so far
	nodes := []blob.Ref{blob.VerifSmallRef(1), blob.VerifSmallRef(2)}
	all := []blob.Ref{blob.VerifSmallRef(1), blob.VerifSmallRef(2)}
	kv.Set("meta:"+nodes[0].String(), "100|application/json; camliType=permanode")
	kv.Set("meta:"+nodes[1].String(), "100|application/json; camliType=file")
	kv.Set("signerkeyid:"+blob.VerifSmallRef(200).String(), "KEY1") // written by populateClaim for every claim of this signer
	vr := &jsonsign.VerifyRequest{SignerKeyId: "KEY1", CamliSigner: blob.VerifSmallRef(200)}
	failAt := 0
	if fault {
		failAt = 1 + vrt.Choice(3)
	}
	for i := 1; i <= 3; i++ {
		d := blob.VerifSmallRef(byte(10 + i))
		t := nodes[vrt.Choice(len(nodes))] // targets the permanode or an earlier (indexed) delete claim
		when := time.Unix(int64(1000+10*i), 0)
		cl := vDeleteClaim(d, t, when)
		// the rows and cache updates of a received delete claim, by the real populateClaim
		// (populateDeleteClaim, noteDelete) + commit
		mm := &mutationMap{kv: map[string]string{"meta:" + d.String(): "100|application/json; camliType=claim"}}
		perr := ix.populateClaim(context.Background(), nil, cl.Blob(), vr, mm)
		vrt.Assert(perr == nil, "populateClaim of a delete claim succeeds when the target is indexed")
		if i == failAt {
			kv.Fault = func(op string) bool { return op == "commit" }
			cerr := ix.commit(mm)
			kv.Fault = nil
			vrt.Assert(cerr != nil, "a failed batch commit is reported")
			vrt.Cover("commit failed")
		} else {
			vrt.Assert(ix.commit(mm) == nil, "commit succeeds")
			nodes = append(nodes, d)
		}
		all = append(all, d)
	}
	ix2, err := New(kv) // restart over the same rows
	vrt.Assert(err == nil, "re-opening the index succeeds")
	for _, n := range all {
		vrt.Assert(ix.IsDeleted(n) == ix2.IsDeleted(n), "deletion status is the same after a restart (index without corpus)")
	}
	c, err := NewCorpusFromStorage(kv)
	vrt.Assert(err == nil, "corpus loads from the same rows")
	for _, n := range all {
		vrt.Assert(ix.IsDeleted(n) == c.IsDeleted(n), "deletion status is the same in a corpus loaded from the rows")
	}
}

var _ = io.EOF
var _ = os.ErrNotExist

// K05c: concurrent uploads: two claims-like blobs that need the same key, and the key, are
// received by three goroutines; every lock acquisition is a scheduling point. Whatever the
// interleaving, once all three calls returned and the index drained, everything is indexed.
func VK05cConcurrentUploads() {
	vInstall()
	w := &vWorld{refs: []blob.Ref{blob.VerifSmallRef(10), blob.VerifSmallRef(11), blob.VerifSmallRef(12)}, deps: [][]int{nil, {0}, {0}}}
	vW = w
	kv, src := &vmodel.KV{}, &vmodel.Store{}
	ix := vNewIndex(kv, src)
	vrt.PreemptAtLocks(true)
	vrt.Schedules(10 + 3*vrt.Tier())
	// uploads first store the blob, then feed the index (like a blob store with an index sync)
	done := make(chan bool, 3)
	for _, i := range vPerm(3) {
		i := i
		go func() {
			vDeliver(ix, src, w.refs[i])
			done <- true
		}()
	}
	for k := 0; k < 3; k++ {
		<-done
	}
	vrt.PreemptAtLocks(false)
	vrt.Quiesce()
	for i := range w.refs {
		have, err := kv.Get("have:" + w.refs[i].String())
		vrt.Assert(err == nil && have == "1|indexed", "after concurrent uploads of a blob set with all dependencies, every blob ends up indexed")
	}
	for _, k := range kv.Keys {
		vrt.Assert(len(k) < 8 || k[:8] != "missing|", "no missing-dependency row survives concurrent uploads of a complete set")
	}
	vrt.Assert(len(ix.needs) == 0, "nothing stays pending after concurrent uploads of a complete set")
}

// K14d (C14): the concurrent uploads of K05c with the happens-before race detector on, plus a
// reader that stats the blobs through the index while they are being indexed.
func VK14dIndexUploads() {
	vInstall()
	w := &vWorld{refs: []blob.Ref{blob.VerifSmallRef(10), blob.VerifSmallRef(11), blob.VerifSmallRef(12)}, deps: [][]int{nil, {0}, {0}}}
	vW = w
	kv, src := &vmodel.KV{}, &vmodel.Store{}
	ix := vNewIndex(kv, src)
	vrt.RaceDetect(true)
	vrt.PreemptAtLocks(true)
	vrt.Schedules(8 + 3*vrt.Tier())
	done := make(chan bool, 4)
	for _, i := range vPerm(3) {
		i := i
		go func() {
			vDeliver(ix, src, w.refs[i])
			done <- true
		}()
	}
	go func() {
		for i := range w.refs {
			n := 0
			err := ix.StatBlobs(context.Background(), []blob.Ref{w.refs[i]}, func(sb blob.SizedRef) error {
				n++
				vrt.Assert(sb.Ref == w.refs[i] && sb.Size == 1, "a stat through the index reports only true facts")
				return nil
			})
			vrt.Assert(err == nil && n <= 1, "a stat through the index succeeds while blobs are being indexed")
		}
		done <- true
	}()
	for k := 0; k < 4; k++ {
		<-done
	}
	vrt.PreemptAtLocks(false)
	vrt.Quiesce()
	for i := range w.refs {
		have, err := kv.Get("have:" + w.refs[i].String())
		vrt.Assert(err == nil && have == "1|indexed", "after concurrent uploads of a blob set with all dependencies, every blob ends up indexed")
	}
	vrt.Assert(len(ix.needs) == 0, "nothing stays pending after concurrent uploads of a complete set")
	vrt.Cover("done")
}

// K06c (C06): a delete claim that is received BEFORE its target. The calls below are the ones
// Index.ReceiveBlob makes (receive.go: populateMutationMap returns the partial map {meta, have}
// with a nil error for an index miss; then commit + corpus.addBlob; when the target has been
// indexed the claim is re-indexed: populateDeleteClaim + noteDelete + commit + corpus.addBlob).
// The live corpus must agree with a corpus loaded from the resulting rows.
func VK06cDeleteBeforeTarget() {
	kv := &vmodel.KV{}
	ix, err := New(kv)
	vrt.Assert(err == nil, "index.New succeeds")
	ix.corpus = newCorpus()
	ctx := context.Background()
	target, d := blob.VerifSmallRef(1), blob.VerifSmallRef(11)
	signer := blob.VerifSmallRef(200)
	vr := &jsonsign.VerifyRequest{SignerKeyId: "KEY1", CamliSigner: signer}
	cl := vDeleteClaim(d, target, time.Unix(1010, 0))
	deliver := func(br blob.Ref, mm *mutationMap) {
		vrt.Assert(ix.commit(mm) == nil, "commit succeeds")
		vrt.Assert(ix.corpus.addBlob(ctx, br, mm) == nil, "the corpus accepts the blob")
	}
	targetRows := func() *mutationMap {
		return &mutationMap{kv: map[string]string{
			"meta:" + target.String(): "100|application/json; camliType=permanode",
			"have:" + target.String(): "100|indexed"}}
	}
	claimRows := func() *mutationMap {
		mm := &mutationMap{signerBlobRef: signer, signerID: "KEY1", kv: map[string]string{
			"meta:" + d.String():             "100|application/json; camliType=claim",
			"signerkeyid:" + signer.String(): "KEY1",
			"have:" + d.String():             "100|indexed"}}
		perr := ix.populateClaim(ctx, nil, cl.Blob(), vr, mm) // populateDeleteClaim + noteDelete
		vrt.Assert(perr == nil, "populateClaim of the delete claim succeeds once the target is indexed")
		return mm
	}
	if vrt.Bool() {
		// claim first: indexed partially, then again once the target is there
		deliver(d, &mutationMap{kv: map[string]string{
			"meta:" + d.String(): "100|application/json; camliType=claim",
			"have:" + d.String(): "100"}})
		deliver(target, targetRows())
		deliver(d, claimRows())
		vrt.Cover("claim-first")
	} else {
		deliver(target, targetRows())
		deliver(d, claimRows())
		vrt.Cover("target-first")
	}
	loaded, err := NewCorpusFromStorage(kv)
	vrt.Assert(err == nil, "a corpus loads from the rows")
	vrt.Assert(ix.IsDeleted(target), "the index's own deletion cache knows the deletion")
	vrt.Assert(loaded.IsDeleted(target), "a corpus loaded from the rows knows the deletion")
	vrt.Assert(ix.corpus.IsDeleted(target) == loaded.IsDeleted(target), "the live corpus agrees with a corpus loaded from the same rows about a deletion")
}

// K06d (C06): an attribute claim whose index rows exceed the sorted-KV size limits. The rows are
// produced by the real populateClaim, written through the real commit into the real in-memory
// sorted store (which skips oversized rows: sorted.CheckSizes) and merged into the live corpus by
// the real Corpus.addBlob; the attribute must read the same live and in a corpus loaded from the
// stored rows.
func VK06dOversizedRow() {
	kv := sorted.NewMemoryKeyValue()
	ix, err := New(kv)
	vrt.Assert(err == nil, "index.New succeeds")
	ix.corpus = newCorpus()
	ctx := context.Background()
	pn, c1 := blob.VerifSmallRef(1), blob.VerifSmallRef(11)
	signer := blob.VerifSmallRef(200)
	vr := &jsonsign.VerifyRequest{SignerKeyId: "KEY1", CamliSigner: signer}
	n := []int{3, sorted.MaxValueSize - 300, sorted.MaxValueSize + 10}[vrt.Choice(3)]
	val := make([]byte, n)
	for i := range val {
		val[i] = 'x'
	}
	when := time.Unix(1010, 0)
	b := schema.VerifNewBlob(c1, schema.VerifBlobDesc{Type: "claim", ClaimType: "set-attribute", Permanode: pn, Attribute: "title", Value: string(val), Signed: true, ClaimDate: when})
	deliver := func(br blob.Ref, mm *mutationMap) {
		vrt.Assert(ix.commit(mm) == nil, "commit succeeds")
		vrt.Assert(ix.corpus.addBlob(ctx, br, mm) == nil, "the corpus accepts the blob")
	}
	deliver(pn, &mutationMap{kv: map[string]string{
		"meta:" + pn.String(): "100|application/json; camliType=permanode",
		"have:" + pn.String(): "100|indexed"}})
	mm := &mutationMap{kv: map[string]string{
		"meta:" + c1.String(): "100|application/json; camliType=claim",
		"have:" + c1.String(): "100|indexed"}}
	perr := ix.populateClaim(ctx, nil, b, vr, mm)
	vrt.Assert(perr == nil, "populateClaim of an attribute claim succeeds")
	deliver(c1, mm)
	at := time.Unix(2000, 0)
	live := ix.corpus.PermanodeAttrValue(pn, "title", at, "")
	c2, err := NewCorpusFromStorage(kv)
	vrt.Assert(err == nil, "corpus loads from the stored rows")
	loaded := c2.PermanodeAttrValue(pn, "title", at, "")
	if n > sorted.MaxValueSize {
		vrt.Cover("oversized")
	}
	vrt.Assert(len(live) == len(loaded), "an attribute reads the same live and in a corpus loaded from the stored rows, whatever the size of its value")
}
