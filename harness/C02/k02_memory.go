package memory

// C02 (a store that verifies by itself): a corrupt upload is refused by the in-memory store
// (used as cache and in tests) also under a ref it already holds -- through blobserver.Receive
// and directly -- and leaves the stored bytes unchanged.

import (
	"bytes"
	"context"
	"hash"
	"io"

	"perkeep.org/internal/vrt"
	"perkeep.org/pkg/blob"
	"perkeep.org/pkg/blobserver"
)

var vMatch bool

func VK02eMemoryReupload() {
	// model hash: whether the bytes read hash to the ref is a free boolean per upload
	vrt.Stub("(perkeep.org/pkg/blob.Ref).HashMatches", func(r blob.Ref, h hash.Hash) bool { return vMatch })
	vrt.Stub("(*crypto/internal/fips140/sha256.Digest).Write", func(p []byte) (int, error) { return len(p), nil })
	var s *Storage
	if vrt.Bool() {
		s = &Storage{}
	} else {
		s = NewCache(8)
		vrt.Cover("cache")
	}
	ctx := context.Background()
	br := blob.MustParse("sha224-d14a028c2a3a2bc9476102bb288234c415a2b01f828ea62ac5b3e42f")
	good := vrt.Bytes(1 + vrt.Choice(2))
	held := vrt.Bool()
	if held {
		vMatch = true
		_, err := blobserver.Receive(ctx, s, br, bytes.NewReader(good))
		vrt.Assert(err == nil, "a matching upload is accepted")
	}
	offered := vrt.Bytes(vrt.Choice(3))
	vMatch = vrt.Bool()
	var err error
	if vrt.Bool() {
		_, err = blobserver.Receive(ctx, s, br, bytes.NewReader(offered))
	} else {
		_, err = s.ReceiveBlob(ctx, br, bytes.NewReader(offered))
		vrt.Cover("direct")
	}
	if !vMatch {
		vrt.Assert(err != nil, "bytes that do not hash to the ref are refused, also under a ref the store already holds")
		rc, size, ferr := s.Fetch(ctx, br)
		if held {
			vrt.Assert(ferr == nil && int(size) == len(good), "a refused upload leaves the stored blob as it was")
			if ferr == nil {
				got, _ := io.ReadAll(rc)
				ok := len(got) == len(good)
				for i := 0; ok && i < len(got); i++ {
					if got[i] != good[i] {
						ok = false
					}
				}
				vrt.Assert(ok, "a refused upload leaves the stored bytes unchanged")
			}
		} else {
			vrt.Assert(ferr != nil, "a refused upload stores nothing")
		}
		vrt.Cover("refused")
	} else {
		vrt.Assert(err == nil, "bytes that hash to the ref are accepted")
	}
}
