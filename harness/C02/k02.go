package blobserver

// C02: only bytes matching their blobref, within the size cap, are ever accepted by
// the verified receive entry point; a rejected upload leaves no trace and notifies nobody.

import (
	"bytes"
	"context"
	"errors"
	"io"

	"perkeep.org/internal/vmodel"
	"perkeep.org/internal/vrt"
	"perkeep.org/pkg/blob"
)

// ---- model hash: the digest is an arbitrary function of the number of bytes written
// (exact for the one fixed content in play); the real SHA-224 is trusted std. ----

var vHashWritten int
var vHashDigests [][]byte // vHashDigests[k] = digest of the first k content bytes

func vInstallHash(maxLen int) {
	vHashWritten = 0
	vHashDigests = nil
	for k := 0; k <= maxLen; k++ {
		vHashDigests = append(vHashDigests, vrt.Bytes(28))
	}
	vrt.Stub("(*crypto/internal/fips140/sha256.Digest).Write", func(p []byte) (int, error) {
		vHashWritten += len(p)
		return len(p), nil
	})
	vrt.Stub("(*crypto/internal/fips140/sha256.Digest).Sum", func(in []byte) []byte {
		k := vHashWritten
		if k >= len(vHashDigests) {
			k = len(vHashDigests) - 1
		}
		return append(in, vHashDigests[k]...)
	})
	vrt.Stub("(*crypto/internal/fips140/sha256.Digest).Reset", func() { vHashWritten = 0 })
}

// ---- a source with arbitrary fragmentation, data+EOF together or apart, or a mid-stream error ----

type vSrc struct {
	data   []byte
	pos    int
	failAt int // return an error once pos reaches failAt (-1: never)
	reads  int
	failed bool // an error was actually returned
}

func (s *vSrc) Read(p []byte) (int, error) {
	s.reads++
	if s.failAt >= 0 && s.pos >= s.failAt {
		s.failed = true
		return 0, vmodel.ErrFault
	}
	rem := len(s.data) - s.pos
	if rem == 0 {
		return 0, io.EOF
	}
	max := rem
	if len(p) < max {
		max = len(p)
	}
	if s.failAt >= 0 && s.failAt-s.pos < max {
		max = s.failAt - s.pos
	}
	n := max
	if max > 1 {
		n = 1 + vrt.Choice(max) // any fragment size 1..max
	}
	copy(p, s.data[s.pos:s.pos+n])
	s.pos += n
	if s.pos == len(s.data) && vrt.Choice(2) == 1 {
		return n, io.EOF // last bytes together with EOF
	}
	return n, nil
}

// ---- destinations following the BlobReceiver contract: read to EOF, commit iff no error ----

type vDst struct {
	kind      int
	committed [][]byte
	refs      []blob.Ref
}

func (d *vDst) ReceiveBlob(ctx context.Context, br blob.Ref, src io.Reader) (blob.SizedRef, error) {
	var data []byte
	var err error
	switch d.kind {
	case 0:
		data, err = io.ReadAll(src)
	case 1:
		var b bytes.Buffer
		_, err = b.ReadFrom(src)
		data = b.Bytes()
	default:
		buf := make([]byte, 2)
		for {
			n, rerr := src.Read(buf)
			data = append(data, buf[:n]...)
			if rerr == io.EOF {
				break
			}
			if rerr != nil {
				err = rerr
				break
			}
		}
	}
	if err != nil {
		return blob.SizedRef{}, err
	}
	d.refs = append(d.refs, br)
	d.committed = append(d.committed, data)
	return blob.SizedRef{Ref: br, Size: uint32(len(data))}, nil
}

// K02a: Receive accepts exactly the complete, digest-matching stream.
func VK02aReceive() {
	n := vrt.Choice(4) // content length 0..3
	vInstallHash(n)
	data := vrt.Bytes(n)
	br := blob.VerifRef(1, vrt.Bytes(28)) // a sha224 ref with an arbitrary digest
	src := &vSrc{data: data, failAt: -1}
	if vrt.Choice(2) == 1 {
		src.failAt = vrt.Choice(n + 1)
	}
	dst := &vDst{kind: vrt.Choice(3)}
	notified := 0
	GetHub(dst).AddReceiveHook(func(sb blob.SizedRef) error {
		notified++
		vrt.Assert(len(dst.committed) == 1, "observers are notified only after the store committed the blob")
		return nil
	})
	sb, err := Receive(context.Background(), dst, br, src)
	matches := true
	for i := 0; i < 28; i++ {
		if vHashDigests[n][i] != br.VerifDigestByte(i) {
			matches = false
		}
	}
	if err == nil {
		vrt.Assert(!src.failed, "a source error is never reported as success")
		vrt.Assert(matches, "accepted only if the bytes hash to the ref")
		vrt.Assert(len(dst.committed) == 1 && bytes.Equal(dst.committed[0], data), "the committed bytes are exactly the source bytes")
		vrt.Assert(sb.Ref == br && int(sb.Size) == n, "acknowledged ref and size")
		vrt.Assert(notified == 1, "observers are notified once of an accepted blob")
	} else {
		vrt.Assert(len(dst.committed) == 0, "a rejected upload leaves no trace in the store")
		vrt.Assert(notified == 0, "observers are not notified of a rejected upload")
		if !src.failed && !matches {
			vrt.Assert(errors.Is(err, ErrCorruptBlob), "a digest mismatch is reported as a corrupt blob")
		}
	}
	if !src.failed && matches {
		vrt.Assert(err == nil, "a complete, matching stream is accepted")
	}
}

// K02c: refs of unknown hash functions are rejected before anything is read or stored.
func VK02cUnknownHash() {
	br, ok := blob.Parse("md5-" + "00112233445566778899aabbccddeeff")
	vrt.Assert(ok && br.Valid(), "unknown-hash ref parses")
	src := &vSrc{data: vrt.Bytes(2), failAt: -1}
	dst := &vDst{kind: vrt.Choice(3)}
	notified := 0
	GetHub(dst).AddReceiveHook(func(sb blob.SizedRef) error { notified++; return nil })
	_, err := Receive(context.Background(), dst, br, src)
	vrt.Assert(err != nil, "a ref of an unsupported hash is rejected")
	vrt.Assert(len(dst.committed) == 0 && notified == 0, "nothing stored, nobody notified for an unsupported hash")
	vrt.Assert(src.reads == 0, "an unsupported hash is rejected before reading the source")
}

// ---- the 16 MiB cap, driven with a source that claims any number of bytes ----

type vBigSrc struct{ remain int64 }

func (s *vBigSrc) Read(p []byte) (int, error) {
	if s.remain == 0 {
		return 0, io.EOF
	}
	n := int64(len(p))
	if n > s.remain {
		n = s.remain
	}
	s.remain -= n
	return int(n), nil // contents irrelevant (hash is the model hash)
}

type vCountDst struct {
	total     int64
	committed bool
}

func (d *vCountDst) ReceiveBlob(ctx context.Context, br blob.Ref, src io.Reader) (blob.SizedRef, error) {
	buf := make([]byte, 8<<20)
	for {
		n, err := src.Read(buf)
		d.total += int64(n)
		if err == io.EOF {
			break
		}
		if err != nil {
			return blob.SizedRef{}, err
		}
	}
	d.committed = true
	return blob.SizedRef{Ref: br, Size: uint32(d.total)}, nil
}

// K02d: sizes on both sides of the cap, genuine or corrupt. The model hash matches only when
// the upload is genuine and all of its bytes were hashed: exactly MaxBlobSize genuine bytes are
// accepted, one byte more is rejected, and a corrupt upload is rejected at every size.
func VK02dSizeCap() {
	delta := int64(vrt.Choice(3)) - 1 // -1, 0, +1
	size := int64(MaxBlobSize) + delta
	// model hash: the digest of exactly `size` bytes is d when the upload is genuine, anything
	// else (fewer bytes hashed, or a corrupt upload) hashes to a different digest d2
	d, d2 := vrt.Bytes(28), vrt.Bytes(28)
	vrt.Assume(d[0] != d2[0])
	genuine := vrt.Bool()
	written := int64(0)
	vrt.Stub("(*crypto/internal/fips140/sha256.Digest).Write", func(p []byte) (int, error) {
		written += int64(len(p))
		return len(p), nil
	})
	vrt.Stub("(*crypto/internal/fips140/sha256.Digest).Sum", func(in []byte) []byte {
		if genuine && written == size {
			return append(in, d...)
		}
		return append(in, d2...)
	})
	br := blob.VerifRef(1, d)
	dst := &vCountDst{}
	_, err := Receive(context.Background(), dst, br, &vBigSrc{remain: size})
	vrt.Assert(dst.total <= MaxBlobSize, "a store is never handed more than the 16 MiB limit")
	if delta == 0 {
		vrt.Cover("corrupt-at-cap") // (the genuine / corrupt cases of one size are merged)
	}
	switch {
	case delta <= 0 && genuine:
		vrt.Assert(err == nil && dst.committed && dst.total == size, "a matching blob within the limit is accepted whole")
	case delta <= 0:
		vrt.Assert(err != nil, "a corrupt blob is rejected also at the size limit")
	default:
		vrt.Assert(err != nil, "a blob over the limit is rejected")
	}
}
