package index

// C07: permanode attributes and deletions follow the documented claim semantics, on
// every query path of the in-memory corpus (cached attributes, claim replay at a
// historical time) and of the index deletion cache.

import (
	"sort"
	"time"

	"perkeep.org/internal/vrt"
	"perkeep.org/pkg/blob"
	"perkeep.org/pkg/types/camtypes"
)

var (
	vPn  = blob.VerifSmallRef(1)
	vS1  = blob.VerifSmallRef(201)
	vS2  = blob.VerifSmallRef(202)
	vKey = map[blob.Ref]string{vS1: "K1", vS2: "K2"}
)

func vCorpus() *Corpus {
	c := newCorpus()
	c.keyId[vS1] = "K1"
	c.keyId[vS2] = "K2"
	c.signerRefs["K1"] = SignerRefSet{vS1.String()}
	c.signerRefs["K2"] = SignerRefSet{vS2.String()}
	c.VerifAddBlobMeta(vPn, 10, "permanode")
	return c
}

// a claim kind: type, value ("" with del = delete all values), signer
type vKind struct {
	typ, val string
	signer   blob.Ref
}

func vKinds(twoSigners bool) []vKind {
	ks := []vKind{
		{"set-attribute", "x", vS1}, {"set-attribute", "y", vS1},
		{"add-attribute", "x", vS1}, {"add-attribute", "y", vS1},
		{"del-attribute", "x", vS1}, {"del-attribute", "y", vS1}, {"del-attribute", "", vS1},
	}
	if twoSigners {
		ks = []vKind{
			{"add-attribute", "x", vS1}, {"add-attribute", "y", vS1}, {"del-attribute", "x", vS1}, {"del-attribute", "", vS1},
			{"add-attribute", "x", vS2}, {"add-attribute", "y", vS2}, {"del-attribute", "x", vS2}, {"del-attribute", "", vS2},
		}
	}
	return ks
}

// vMakeClaims: n claims on attribute "a"; the first claim's kind is fixed (the entry
// points split the space on it), the others are chosen; dates symbolic and distinct, so
// every relation between arrival order and date order is covered.
func vMakeClaims(n int, kinds []vKind, first int, symbolicDates bool) []camtypes.Claim {
	var cls []camtypes.Claim
	for i := 0; i < n; i++ {
		k := kinds[first%len(kinds)]
		if i > 0 {
			k = kinds[vrt.Choice(len(kinds))]
		}
		cl := camtypes.Claim{BlobRef: blob.VerifSmallRef(byte(100 + i)), Permanode: vPn, Signer: k.signer, Type: k.typ, Attr: "a", Value: k.val}
		if symbolicDates {
			cl.Date = time.Unix(int64(vrt.Range(1, 9)), 0)
			for j := 0; j < i; j++ {
				vrt.Assume(!cls[j].Date.Equal(cl.Date)) // equal claim dates: order unspecified (D12), excluded
			}
		} else {
			cl.Date = time.Unix(int64(2*i+2), 0)
		}
		cls = append(cls, cl)
	}
	return cls
}

// reference: fold the signer's claims dated <= at (zero: all) in date order.
func vRefValues(cls []camtypes.Claim, attr string, at time.Time, signerKey string) []string {
	sorted := append([]camtypes.Claim(nil), cls...)
	sort.Slice(sorted, func(i, j int) bool { return sorted[i].Date.Before(sorted[j].Date) })
	var vals []string
	for _, cl := range sorted {
		if cl.Attr != attr {
			continue
		}
		if !at.IsZero() && cl.Date.After(at) {
			continue
		}
		if signerKey != "" && vKey[cl.Signer] != signerKey {
			continue
		}
		switch cl.Type {
		case "set-attribute":
			vals = []string{cl.Value}
		case "add-attribute":
			vals = append(vals, cl.Value)
		case "del-attribute":
			if cl.Value == "" {
				vals = nil
			} else {
				var keep []string
				for _, v := range vals {
					if v != cl.Value {
						keep = append(keep, v)
					}
				}
				vals = keep
			}
		}
	}
	return vals
}

func vSameStrings(a, b []string) bool {
	if len(a) != len(b) {
		return false
	}
	for i := range a {
		if a[i] != b[i] {
			return false
		}
	}
	return true
}

func vCheckQueries(c *Corpus, cls []camtypes.Claim, attrs []string, filters []string) {
	var at time.Time
	if vrt.Choice(2) == 1 {
		at = time.Unix(int64(vrt.Range(0, 10)), 0)
	}
	filter := filters[vrt.Choice(len(filters))]
	attr := attrs[vrt.Choice(len(attrs))]
	want := vRefValues(cls, attr, at, filter)
	got := c.AppendPermanodeAttrValues(nil, vPn, attr, at, filter)
	vrt.Assert(vSameStrings(got, want), "AppendPermanodeAttrValues = fold of the signer's claims up to T in date order")
	first := ""
	if len(want) > 0 {
		first = want[0]
	}
	vrt.Assert(c.PermanodeAttrValue(vPn, attr, at, filter) == first, "PermanodeAttrValue = first folded value")
	all := vRefValues(cls, attr, at, "")
	hasX := false
	for _, v := range all {
		if v == "x" {
			hasX = true
		}
	}
	vrt.Assert(c.PermanodeHasAttrValue(vPn, at, attr, "x") == hasX, "PermanodeHasAttrValue agrees with the folded values")
}

func vDeliver(c *Corpus, cls []camtypes.Claim) {
	for _, cl := range cls {
		err := c.VerifMergeClaim(cl)
		vrt.Assert(err == nil, "claim row merges")
	}
}

// K07a: one signer, set/add/del with and without value, any date order, any T.
func vOneSigner(first int) {
	c := vCorpus()
	cls := vMakeClaims(3, vKinds(false), first, true)
	vDeliver(c, cls)
	vCheckQueries(c, cls, []string{"a"}, []string{"", "K1"})
}

func VK07aOneSigner0() { vOneSigner(0) }
func VK07aOneSigner1() { vOneSigner(1) }
func VK07aOneSigner2() { vOneSigner(2) }
func VK07aOneSigner3() { vOneSigner(3) }
func VK07aOneSigner4() { vOneSigner(4) }
func VK07aOneSigner5() { vOneSigner(5) }
func VK07aOneSigner6() { vOneSigner(6) }

// K07a': two signers (per-signer caches and their 1 -> 2 signer split).
func vTwoSigners(first int) {
	c := vCorpus()
	cls := vMakeClaims(3, vKinds(true), first, true)
	vDeliver(c, cls)
	vCheckQueries(c, cls, []string{"a"}, []string{"", "K1", "K2"})
}

func VK07aTwoSigners0() { vTwoSigners(0) }
func VK07aTwoSigners1() { vTwoSigners(1) }
func VK07aTwoSigners2() { vTwoSigners(2) }
func VK07aTwoSigners3() { vTwoSigners(3) }
func VK07aTwoSigners4() { vTwoSigners(4) }
func VK07aTwoSigners5() { vTwoSigners(5) }
func VK07aTwoSigners6() { vTwoSigners(6) }
func VK07aTwoSigners7() { vTwoSigners(7) }

// K07a'': longer histories with repeated values (add x, add x, del x ...), arrival in
// date order, queried at every historical time (the claim-replay path).
func VK07aRepeated() {
	c := vCorpus()
	kinds := []vKind{{"add-attribute", "x", vS1}, {"add-attribute", "y", vS1}, {"del-attribute", "x", vS1}, {"set-attribute", "y", vS1}}
	cls := vMakeClaims(4+vrt.Tier(), kinds, vrt.Choice(4), false)
	vDeliver(c, cls)
	vCheckQueries(c, cls, []string{"a"}, []string{""})
}

// K07c: deletion status on arbitrary delete graphs: deleted(x) iff some delete claim
// targeting x is not itself deleted.
func VK07cDeleted() {
	nd := 3
	nodes := []blob.Ref{blob.VerifSmallRef(1)}
	target := []int{-1}
	c := newCorpus()
	x := &Index{deletes: newDeletionCache()}
	for i := 1; i <= nd; i++ {
		d := blob.VerifSmallRef(byte(10 + i))
		t := vrt.Choice(i) // any earlier node
		when := time.Unix(int64(vrt.Range(1, 9)), 0)
		nodes = append(nodes, d)
		target = append(target, t)
		// the way the index/corpus keep them: newest deletion first
		for _, m := range []map[blob.Ref][]deletion{c.deletes, x.deletes.m} {
			l := append(m[nodes[t]], deletion{deleter: d, when: when})
			sort.Sort(sort.Reverse(byDeletionDate(l)))
			m[nodes[t]] = l
		}
	}
	var ref func(k int) bool
	ref = func(k int) bool {
		for j := range nodes {
			if target[j] == k && !ref(j) {
				return true
			}
		}
		return false
	}
	for k := range nodes {
		want := ref(k)
		vrt.Assert(c.IsDeleted(nodes[k]) == want, "Corpus.IsDeleted follows the documented recursive rule")
		vrt.Assert(x.IsDeleted(nodes[k]) == want, "Index.IsDeleted follows the documented recursive rule")
	}
}

// K07c': PermanodeModtime and AppendClaims ignore deleted claims.
func VK07cModtime() {
	c := vCorpus()
	cls := vMakeClaims(2, vKinds(false), 2, true)
	vDeliver(c, cls)
	del := vrt.Choice(3) // which claim is deleted (2: none)
	if del < 2 {
		c.VerifAddDeletion(cls[del].BlobRef, blob.VerifSmallRef(150), time.Unix(20, 0))
	}
	var want time.Time
	n := 0
	for i, cl := range cls {
		if i == del {
			continue
		}
		n++
		if cl.Date.After(want) {
			want = cl.Date
		}
	}
	got, ok := c.PermanodeModtime(vPn)
	vrt.Assert(ok == (n > 0), "PermanodeModtime ok iff a non-deleted claim exists")
	if n > 0 {
		vrt.Assert(got.Equal(want), "PermanodeModtime is the newest non-deleted claim date")
	}
	out, err := c.AppendClaims(nil, nil, vPn, "", "")
	vrt.Assert(err == nil && len(out) == n, "AppendClaims skips deleted claims")
}

// K07d: attribute values ignore deleted attribute claims (known finding D11).
func VK07dDeletedAttrClaim() {
	c := vCorpus()
	cl := camtypes.Claim{BlobRef: blob.VerifSmallRef(100), Permanode: vPn, Signer: vS1, Type: "set-attribute", Attr: "a", Value: "x", Date: time.Unix(5, 0)}
	vDeliver(c, []camtypes.Claim{cl})
	c.VerifAddDeletion(cl.BlobRef, blob.VerifSmallRef(150), time.Unix(6, 0))
	got := c.AppendPermanodeAttrValues(nil, vPn, "a", time.Time{}, "")
	vrt.Assert(len(got) == 0, "a deleted attribute claim no longer contributes to the attribute values (corpus)")
}

// K06a (C06): the corpus built incrementally (claims merged live in arrival order) equals
// the corpus a restart builds (all claim rows appended while "building", then
// restoreInvariants): same claim order, same attribute answers.
func VK06aLiveVsLoaded1() { vLiveVsLoaded(false) }
func VK06aLiveVsLoaded2() { vLiveVsLoaded(true) }

func vLiveVsLoaded(two bool) {
	cls := vMakeClaims(3, vKinds(two), vrt.Choice(len(vKinds(two))), true)
	live := vCorpus()
	vDeliver(live, cls)
	loaded := vCorpus()
	loaded.building = true
	// rows are scanned in key order: claim|permanode|signer|date|... ; any order must do, use reverse arrival
	for i := len(cls) - 1; i >= 0; i-- {
		err := loaded.VerifMergeClaim(cls[i])
		vrt.Assert(err == nil, "claim row merges while building")
	}
	for _, pm := range loaded.permanodes {
		vrt.Assert(pm.restoreInvariants(loaded.keyId) == nil, "restoreInvariants succeeds")
	}
	loaded.building = false
	a, b := live.permanodes[vPn].Claims, loaded.permanodes[vPn].Claims
	vrt.Assert(len(a) == len(b), "same number of claims live and after a restart")
	for i := 0; i < len(a) && i < len(b); i++ {
		vrt.Assert(a[i].BlobRef == b[i].BlobRef, "claims are in the same (date) order live and after a restart")
	}
	var at time.Time
	if vrt.Choice(2) == 1 {
		at = time.Unix(int64(vrt.Range(0, 10)), 0)
	}
	filter := []string{"", "K1"}[vrt.Choice(2)]
	va := live.AppendPermanodeAttrValues(nil, vPn, "a", at, filter)
	vb := loaded.AppendPermanodeAttrValues(nil, vPn, "a", at, filter)
	vrt.Assert(vSameStrings(va, vb), "attribute values are the same live and after a restart")
	vrt.Assert(live.PermanodeAttrValue(vPn, "a", at, filter) == loaded.PermanodeAttrValue(vPn, "a", at, filter), "single attribute value is the same live and after a restart")
	ta, oka := live.PermanodeModtime(vPn)
	tb, okb := loaded.PermanodeModtime(vPn)
	vrt.Assert(oka == okb && ta.Equal(tb), "permanode modtime is the same live and after a restart")
}
