package schema

// C15 (K15c): a directory listing split over several static-set blobs lists exactly
// the original members, and no static-set exceeds the member limit.

import (
	"bytes"
	"context"
	"io"
	"os"

	"perkeep.org/internal/vrt"
	"perkeep.org/pkg/blob"
)

type vSetBlob struct {
	bb        *Builder
	ref       blob.Ref
	members   []blob.Ref
	mergeSets []blob.Ref
}

var vSets []*vSetBlob

func vRefsOf(v any) []blob.Ref {
	ss, _ := v.([]string)
	var out []blob.Ref
	for _, s := range ss {
		out = append(out, blob.MustParse(s))
	}
	return out
}

// model of (*Builder).Blob: JSON marshalling and hashing are outside the claim; the
// blob gets a fresh ref and keeps the builder's members / mergeSets.
func vBuilderBlob(bb *Builder) *Blob {
	for _, s := range vSets {
		if s.bb == bb {
			return &Blob{br: s.ref, ss: &superset{Type: "static-set"}}
		}
	}
	s := &vSetBlob{bb: bb, ref: blob.VerifSmallRef(byte(100 + len(vSets)))}
	s.members = vRefsOf(bb.m["members"])
	s.mergeSets = vRefsOf(bb.m["mergeSets"])
	vSets = append(vSets, s)
	return &Blob{br: s.ref, ss: &superset{Type: "static-set"}}
}

type vSetFetcher struct{}

func (vSetFetcher) Fetch(ctx context.Context, br blob.Ref) (io.ReadCloser, uint32, error) {
	for i, s := range vSets {
		if s.ref == br {
			return io.NopCloser(bytes.NewReader([]byte{byte(i)})), 1, nil
		}
	}
	return nil, 0, os.ErrNotExist
}

// model of parseSuperset for the one-byte bodies handed out by vSetFetcher
func vParseSuperset(r io.Reader) (*superset, error) {
	var b [1]byte
	if _, err := io.ReadFull(r, b[:]); err != nil {
		return nil, err
	}
	s := vSets[b[0]]
	return &superset{Type: "static-set", Members: s.members, MergeSets: s.mergeSets}, nil
}

func VK15cStaticSet() {
	vSets = nil
	vrt.Stub("(*perkeep.org/pkg/schema.Builder).Blob", vBuilderBlob)
	vrt.Stub("perkeep.org/pkg/schema.parseSuperset", vParseSuperset)
	old := maxStaticSetMembers
	maxStaticSetMembers = 3 + vrt.Choice(1+vrt.Tier()) // 3 (quick), 3..4 (thorough); 2 is degenerate
	defer func() { maxStaticSetMembers = old }()
	max := maxStaticSetMembers
	n := vrt.Choice(22 + 30*vrt.Tier()) // member counts 0..21 (quick) / 0..51 (thorough): around max, max^2 and max^3
	var members []blob.Ref
	for i := 0; i < n; i++ {
		members = append(members, blob.VerifSmallRef(byte(i)))
	}
	top := NewStaticSet()
	subs := top.SetStaticSetMembers(members)
	topBlob := vBuilderBlob(top)
	// every node within the limit
	for _, s := range vSets {
		vrt.Assert(len(s.members) <= max, "static-set has at most max members")
		vrt.Assert(len(s.mergeSets) <= max, "static-set has at most max sub-sets")
		vrt.Assert(len(s.members) == 0 || len(s.mergeSets) == 0, "a static-set has members or sub-sets, not both")
	}
	// every sub-set the caller must upload was returned
	for _, s := range vSets {
		if s.ref == topBlob.br {
			continue
		}
		found := false
		for _, b := range subs {
			if b.br == s.ref {
				found = true
			}
		}
		vrt.Assert(found, "every created sub-set is returned for upload")
	}
	got, err := staticSet(context.Background(), topBlob.br, vSetFetcher{})
	vrt.Assert(err == nil, "reading the static-set tree succeeds")
	vrt.Assert(len(got) == n, "listing has exactly the original number of members")
	for i := 0; i < len(got) && i < n; i++ {
		vrt.Assert(got[i] == members[i], "listing returns the original members in order")
	}
}
