package schema

// C15 (K15d): writeFileChunks on a short input (one chunk): it reports success only when the
// chunk it references is stored, with the file's bytes, and it reports an upload failure -
// whatever the order in which the upload goroutine and the final checks run.

import (
	"bytes"
	"context"
	"io"

	"perkeep.org/internal/vmodel"
	"perkeep.org/internal/vrt"
	"perkeep.org/pkg/blob"
)

func VK15dWriteChunks() {
	vrt.Schedules(3)
	// hashing is not the subject: the single chunk gets a fixed ref
	chunkRef := blob.VerifSmallRef(7)
	vrt.Stub("perkeep.org/pkg/blob.RefFromString", func(s string) blob.Ref { return chunkRef })
	data := vrt.Bytes(1 + vrt.Choice(3))
	st := &vmodel.Store{}
	already := vrt.Bool()
	if already {
		st.Put(chunkRef, append([]byte(nil), data...))
	}
	fault := vrt.Choice(3) // none, stat fails, receive fails
	failed := false
	st.Fault = func(op string) bool {
		if (fault == 1 && op == "stat") || (fault == 2 && op == "receive") {
			failed = true
			return true
		}
		return false
	}
	n, spans, err := writeFileChunks(context.Background(), st, NewFileMap("f"), bytes.NewReader(data))
	vrt.Quiesce()
	if failed {
		vrt.Assert(err != nil, "a failed chunk upload makes writeFileChunks fail")
		vrt.Cover("failed")
		return
	}
	vrt.Assert(err == nil, "without a lower-layer failure writeFileChunks succeeds")
	vrt.Assert(n == int64(len(data)), "the number of bytes consumed is reported")
	vrt.Assert(len(spans) == 1 && spans[0].from == 0 && spans[0].to == n && spans[0].br == chunkRef, "a short file is one span covering all its bytes")
	vrt.Assert(st.Has(chunkRef), "every chunk referenced by the returned spans is stored")
	rc, _, ferr := st.Fetch(context.Background(), chunkRef)
	vrt.Assert(ferr == nil, "the referenced chunk can be fetched")
	if ferr == nil {
		got, _ := io.ReadAll(rc)
		ok := len(got) == len(data)
		for i := 0; ok && i < len(got); i++ {
			if got[i] != data[i] {
				ok = false
			}
		}
		vrt.Assert(ok, "the stored chunk holds the file's bytes")
	}
	vrt.Cover("done")
}
