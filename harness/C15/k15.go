package schema

// C15 harnesses: reading any range of a valid bytes/file schema tree returns exactly
// the bytes the schema denotes (doc/schema/bytes.md).

import (
	"bytes"
	"context"
	"io"
	"os"

	"perkeep.org/internal/vrt"
	"perkeep.org/pkg/blob"
)

type vFetcher struct {
	refs  []blob.Ref
	datas [][]byte
}

func (f *vFetcher) Fetch(ctx context.Context, br blob.Ref) (io.ReadCloser, uint32, error) {
	for i, r := range f.refs {
		if r == br {
			return io.NopCloser(bytes.NewReader(f.datas[i])), uint32(len(f.datas[i])), nil
		}
	}
	return nil, 0, os.ErrNotExist
}

const vBlobLen = 3

// vSubRange picks (offset, size) with size >= 1 and offset+size <= n.
func vSubRange(n int) (uint64, uint64) {
	off := vrt.Choice(n)
	size := 1 + vrt.Choice(n-off)
	return uint64(off), uint64(size)
}

// vLeaf makes a blob part (any sub-range of a fresh 3-byte blob with symbolic bytes) or a hole.
func vLeaf(f *vFetcher, id byte, blen int) *BytesPart {
	if vrt.Choice(4) == 0 {
		return &BytesPart{Size: uint64(1 + vrt.Choice(2))} // hole
	}
	br := blob.VerifSmallRef(id)
	f.refs = append(f.refs, br)
	f.datas = append(f.datas, vrt.Bytes(blen))
	off, size := vSubRange(blen)
	return &BytesPart{BlobRef: br, Offset: off, Size: size}
}

// vTree builds a part tree: nparts parts at the root, each a leaf or a nested "bytes"
// blob referenced with its own offset/size sub-range.  deep=false: the nested blob is a
// single full-range blob part of 4 symbolic bytes (an arbitrary correct sub-reader, which
// is what the same check establishes one level down); deep=true: two arbitrary leaves.
func vTree(nparts int, deep bool) (*FileReader, *superset, map[blob.Ref]*superset, *vFetcher) {
	f := &vFetcher{}
	subs := map[blob.Ref]*superset{}
	root := &superset{Type: "bytes", BlobRef: blob.VerifSmallRef(1)}
	for i := 0; i < nparts; i++ {
		if vrt.Choice(3) < 2 {
			root.Parts = append(root.Parts, vLeaf(f, byte(10+i), vBlobLen))
			continue
		}
		sub := &superset{Type: "bytes", BlobRef: blob.VerifSmallRef(byte(50 + i))}
		if deep {
			sub.Parts = append(sub.Parts, vLeaf(f, byte(20+2*i), 2), vLeaf(f, byte(21+2*i), 2))
		} else {
			br := blob.VerifSmallRef(byte(20 + i))
			f.refs = append(f.refs, br)
			f.datas = append(f.datas, vrt.Bytes(4))
			sub.Parts = append(sub.Parts, &BytesPart{BlobRef: br, Size: 4})
		}
		subs[sub.BlobRef] = sub
		off, size := vSubRange(int(sub.SumPartsSize()))
		root.Parts = append(root.Parts, &BytesPart{BytesRef: sub.BlobRef, Offset: off, Size: size})
	}
	fr, err := root.NewFileReader(f)
	vrt.Assert(err == nil, "NewFileReader on a bytes superset")
	for br, ss := range subs {
		fr.ssm[br] = ss // parsed-superset cache: the JSON decoder is outside the claim
	}
	return fr, root, subs, f
}

// refByteAt: the byte at index i of the bytes denoted by ss (doc/schema/bytes.md).
func refByteAt(ss *superset, subs map[blob.Ref]*superset, f *vFetcher, i uint64) byte {
	for _, p := range ss.Parts {
		if i < p.Size {
			switch {
			case p.BlobRef.Valid():
				for k, r := range f.refs {
					if r == p.BlobRef {
						return f.datas[k][p.Offset+i]
					}
				}
				return 0
			case p.BytesRef.Valid():
				return refByteAt(subs[p.BytesRef], subs, f, p.Offset+i)
			}
			return 0
		}
		i -= p.Size
	}
	return 0
}

// K15a: ReadAt at any offset/length returns exactly the denoted bytes.
func VK15aReadAt() {
	fr, root, subs, f := vTree(2, vrt.Tier() == 1)
	total := int64(root.SumPartsSize())
	vrt.Assert(fr.Size() == total, "Size() is the sum of the part sizes")
	off := int64(vrt.Choice(int(total) + 1))
	n := 3
	if vrt.Tier() == 1 {
		n = 1 + vrt.Choice(4)
	}
	p := make([]byte, n)
	got, err := fr.ReadAt(p, off)
	want := int64(n)
	if total-off < want {
		want = total - off
	}
	vrt.Assert(int64(got) == want, "ReadAt returns min(len(p), size-offset) bytes")
	vrt.Assert((err == nil) == (got == n), "ReadAt reports an error exactly when short")
	for j := 0; j < got && j < n; j++ {
		vrt.Assert(p[j] == refByteAt(root, subs, f, uint64(off)+uint64(j)), "ReadAt byte equals the byte the schema denotes")
	}
}

// K15a': Seek + sequential Read agree with the denoted bytes.
func VK15aSeekRead() {
	fr, root, subs, f := vTree(2, false)
	total := int64(root.SumPartsSize())
	off := int64(vrt.Choice(int(total)))
	pos, err := fr.Seek(off, io.SeekStart)
	vrt.Assert(err == nil && pos == off, "Seek to an offset inside the file")
	p := make([]byte, 2)
	got, _ := io.ReadFull(fr, p)
	want := int64(2)
	if total-off < want {
		want = total - off
	}
	vrt.Assert(int64(got) == want, "sequential read returns the remaining bytes up to len(p)")
	for j := 0; j < got && j < 2; j++ {
		vrt.Assert(p[j] == refByteAt(root, subs, f, uint64(off)+uint64(j)), "sequential read byte equals the byte the schema denotes")
	}
}

// K15b: ForeachChunk visits the leaf parts in order; sizes sum to the file size.
func VK15bForeachChunk() {
	fr, root, subs, _ := vTree(2, false)
	var sizes uint64
	var n int
	err := fr.ForeachChunk(context.Background(), func(path []blob.Ref, p BytesPart) error {
		vrt.Assert(!p.BytesRef.Valid(), "ForeachChunk never yields a bytesRef part")
		vrt.Assert(len(path) >= 1 && path[0] == root.BlobRef, "schema path starts at the root")
		n++
		return nil
	})
	vrt.Assert(err == nil, "ForeachChunk succeeds on a well-formed tree")
	want := 0
	for _, p := range root.Parts {
		if p.BytesRef.Valid() {
			want += len(subs[p.BytesRef].Parts)
		} else {
			want++
		}
	}
	vrt.Assert(n == want, "ForeachChunk visits every leaf part once")
	_ = sizes
}
