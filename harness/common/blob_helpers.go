package blob

// Harness helpers (overlay-injected, never written under /repo): construction
// of refs with arbitrary digest bytes from other packages' harnesses.

// VerifRef returns a ref of kind 0 (sha1, 20 bytes), 1 (sha224, 28) or 2 (sha256, 32)
// whose digest is b.
func VerifRef(kind int, b []byte) Ref {
	switch kind {
	case 0:
		var d sha1Digest
		copy(d[:], b)
		return Ref{d}
	case 1:
		var d sha224Digest
		copy(d[:], b)
		return Ref{d}
	}
	var d sha256Digest
	copy(d[:], b)
	return Ref{d}
}

// VerifSmallRef returns a sha224 ref whose digest is zero except for the first
// byte (a cheap family of distinct, ordered refs: order follows x).
func VerifSmallRef(x byte) Ref {
	var d sha224Digest
	d[0] = x
	return Ref{d}
}

// VerifDigestByte returns byte i of the ref's digest.
func (r Ref) VerifDigestByte(i int) byte { return r.digest.bytes()[i] }

// VerifSmallRef16 is like VerifSmallRef with a 16-bit family index.
func VerifSmallRef16(x uint16) Ref {
	var d sha224Digest
	d[0] = byte(x >> 8)
	d[1] = byte(x)
	d[2] = 0xee
	return Ref{d}
}
