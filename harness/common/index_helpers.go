package index

// Harness helpers (overlay-injected, never written under /repo): build and
// drive a Corpus from harnesses living in other packages.

import (
	"context"
	"net/url"
	"sort"
	"time"

	"perkeep.org/internal/vrt"
	"perkeep.org/pkg/blob"
	"perkeep.org/pkg/schema"
	"perkeep.org/pkg/types/camtypes"
)

var verifClaim *camtypes.Claim

func VerifNewCorpus() *Corpus { return newCorpus() }

func (c *Corpus) VerifSetSigner(signer blob.Ref, keyID string) {
	c.keyId[signer] = keyID
}

func (c *Corpus) VerifAddBlobMeta(br blob.Ref, size uint32, typ schema.CamliType) {
	c.gen++
	c.mergeBlobMeta(camtypes.BlobMeta{Ref: br, Size: size, CamliType: typ})
}

// VerifMergeClaim delivers one claim through the real Corpus.mergeClaimRow.
// Under the engine the row-text parser kvClaimBytes is stubbed to hand over the
// prepared claim; natively the claim is rendered as the real index row and parsed back.
func (c *Corpus) VerifMergeClaim(cl camtypes.Claim) error {
	c.gen++
	if vrt.Symbolic() {
		verifClaim = &cl
		vrt.Stub("(*perkeep.org/pkg/index.Corpus).kvClaimBytes", func(k, v []byte) (camtypes.Claim, bool) { return *verifClaim, true })
		err := c.mergeClaimRow(nil, nil)
		vrt.Stub("(*perkeep.org/pkg/index.Corpus).kvClaimBytes", nil)
		return err
	}
	k := "claim|" + cl.Permanode.String() + "|" + c.keyId[cl.Signer] + "|" + cl.Date.UTC().Format(time.RFC3339Nano) + "|" + cl.BlobRef.String()
	v := url.QueryEscape(cl.Type) + "|" + url.QueryEscape(cl.Attr) + "|" + url.QueryEscape(cl.Value) + "|" + cl.Signer.String()
	return c.mergeClaimRow([]byte(k), []byte(v))
}

// VerifAddDeletion records that deleter (a delete claim dated when) targets target,
// the way Corpus.updateDeletes does for a received delete claim.
func (c *Corpus) VerifAddDeletion(target, deleter blob.Ref, when time.Time) {
	c.gen++
	c.deletes[target] = append(c.deletes[target], deletion{deleter: deleter, when: when})
}

func (c *Corpus) VerifPermanodeMeta(pn blob.Ref) *PermanodeMeta { return c.permanodes[pn] }

// VerifIndexWithDeletes returns an Index whose deletion cache holds the given
// (target, deleter) pairs, newest first per target as the real code keeps them.
func VerifIndexWithDeletes(targets, deleters []blob.Ref, whens []time.Time) *Index {
	x := &Index{deletes: newDeletionCache()}
	for i := range targets {
		l := append(x.deletes.m[targets[i]], deletion{deleter: deleters[i], when: whens[i]})
		sort.Sort(sort.Reverse(byDeletionDate(l)))
		x.deletes.m[targets[i]] = l
	}
	return x
}

// VerifAddBlobRows delivers a received blob's index rows through the real Corpus.addBlob
// (the path Index.ReceiveBlob -> commit takes), including its cache-generation bookkeeping.
func (c *Corpus) VerifAddBlobRows(br blob.Ref, rows map[string]string) error {
	return c.addBlob(context.Background(), br, &mutationMap{kv: rows})
}
