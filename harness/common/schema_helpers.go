package schema

// Harness helpers (overlay-injected): build *Blob values from a description, the
// way parseSuperset would from JSON (the JSON decoder is outside the claim).

import (
	"errors"
	"io"
	"time"

	"go4.org/types"

	"perkeep.org/pkg/blob"
)

type VerifBlobDesc struct {
	Type       string // "claim", "file", "bytes", "directory", "static-set", or other
	ClaimType  string // "share" ...
	AuthType   string
	Target     blob.Ref
	Transitive bool
	Expires    time.Time
	ClaimDate  time.Time
	Signed     bool
	Parts      []*BytesPart
	Entries    blob.Ref
	Members    []blob.Ref
	MergeSets  []blob.Ref
	FileName   string
	Search     any // a search share: "search" set, no target
	Permanode  blob.Ref
	Attribute  string
	Value      string
}

func VerifNewBlob(br blob.Ref, d VerifBlobDesc) *Blob {
	ss := &superset{
		Type: CamliType(d.Type), ClaimType: ClaimType(d.ClaimType), AuthType: d.AuthType, Target: d.Target, Transitive: d.Transitive,
		Expires: types.Time3339(d.Expires), Parts: d.Parts, Entries: d.Entries, Members: d.Members, MergeSets: d.MergeSets, FileName: d.FileName, Search: d.Search, Permanode: d.Permanode, Attribute: d.Attribute, Value: d.Value,
	}
	ss.BlobRef = br
	if d.Signed {
		ss.Signer = blob.VerifSmallRef(250)
		ss.Sig = "sig"
		ss.ClaimDate = types.Time3339(time.Unix(1000, 0))
		if !d.ClaimDate.IsZero() {
			ss.ClaimDate = types.Time3339(d.ClaimDate)
		}
	}
	return &Blob{br: br, str: "{}", ss: ss}
}

func VerifSetClock(f func() time.Time) { clockNow = f }

// VerifSchemaByBody maps the (concrete) body of a schema blob to the description a harness
// registered for it; VerifParseSuperset is the model of parseSuperset over that table
// (the JSON decoder is outside the claim).
var VerifSchemaByBody = map[string]*Blob{}

func VerifParseSuperset(r io.Reader) (*superset, error) {
	var buf [16]byte
	n, _ := io.ReadFull(r, buf[:])
	b, ok := VerifSchemaByBody[string(buf[:n])]
	if !ok {
		return nil, errors.New("verif: not a schema blob")
	}
	ss := *b.ss
	return &ss, nil
}

// VerifBlobFromReader is the matching model of BlobFromReader.
func VerifBlobFromReader(br blob.Ref, r io.Reader) (*Blob, error) {
	ss, err := VerifParseSuperset(r)
	if err != nil {
		return nil, err
	}
	ss.BlobRef = br
	return &Blob{br: br, str: "{}", ss: ss}, nil
}

func (b *Blob) VerifParts() []*BytesPart { return b.ss.Parts }
