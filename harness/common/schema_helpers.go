package schema

// Harness helpers (overlay-injected): build *Blob values from a description, the
// way parseSuperset would from JSON (the JSON decoder is outside the claim).

import (
	"time"

	"go4.org/types"

	"perkeep.org/pkg/blob"
)

type VerifBlobDesc struct {
	Type       string // "claim", "file", "bytes", "directory", "static-set", or other
	ClaimType  string // "share" ...
	AuthType   string
	Target     blob.Ref
	Transitive bool
	Expires    time.Time
	ClaimDate  time.Time
	Signed     bool
	Parts      []*BytesPart
	Entries    blob.Ref
	Members    []blob.Ref
	MergeSets  []blob.Ref
}

func VerifNewBlob(br blob.Ref, d VerifBlobDesc) *Blob {
	ss := &superset{
		Type: CamliType(d.Type), ClaimType: ClaimType(d.ClaimType), AuthType: d.AuthType, Target: d.Target, Transitive: d.Transitive,
		Expires: types.Time3339(d.Expires), Parts: d.Parts, Entries: d.Entries, Members: d.Members, MergeSets: d.MergeSets,
	}
	ss.BlobRef = br
	if d.Signed {
		ss.Signer = blob.VerifSmallRef(250)
		ss.Sig = "sig"
		ss.ClaimDate = types.Time3339(time.Unix(1000, 0))
		if !d.ClaimDate.IsZero() {
			ss.ClaimDate = types.Time3339(d.ClaimDate)
		}
	}
	return &Blob{br: br, str: "{}", ss: ss}
}

func VerifSetClock(f func() time.Time) { clockNow = f }
