// Package vmodel holds the environment models shared by the harnesses: a sorted
// key/value store and a blob store that implement exactly their documented
// contracts (plus optional fault injection), and a byte-array model of a file.
// Injected by overlay as perkeep.org/internal/vmodel; never written under /repo.
package vmodel

import (
	"bytes"
	"context"
	"errors"
	"io"
	"os"
	"sort"

	"perkeep.org/internal/vrt"
	"perkeep.org/pkg/blob"
	"perkeep.org/pkg/sorted"
)

var ErrFault = errors.New("vmodel: injected lower-layer failure")

// YieldAtBoundaries makes every call into a modelled lower layer (file system, KV, sub-store) a
// point where the engine's preemption-bounded scheduler may switch goroutines (C14).
var YieldAtBoundaries bool

// Boundary marks a call into a modelled lower layer.
func Boundary() {
	if YieldAtBoundaries {
		vrt.Yield()
	}
}

// ---------- sorted.KeyValue model ----------

// KV is a byte-ordered map kept as two parallel sorted slices.
type KV struct {
	Keys, Vals []string
	// Fault, if non-nil, is asked before every mutating/reading call; true = fail that call.
	Fault func(op string) bool
	Ops   []string // log of calls ("set k", "del k", "commit n")
}

func (kv *KV) fail(op string) bool {
	Boundary()
	return kv.Fault != nil && kv.Fault(op)
}

func (kv *KV) idx(key string) (int, bool) {
	for i, k := range kv.Keys {
		if k == key {
			return i, true
		}
		if k > key {
			return i, false
		}
	}
	return len(kv.Keys), false
}

func (kv *KV) Get(key string) (string, error) {
	if kv.fail("get") {
		return "", ErrFault
	}
	if i, ok := kv.idx(key); ok {
		return kv.Vals[i], nil
	}
	return "", sorted.ErrNotFound
}

func (kv *KV) set(key, value string) {
	i, ok := kv.idx(key)
	if ok {
		kv.Vals[i] = value
		return
	}
	kv.Keys = append(kv.Keys, "")
	kv.Vals = append(kv.Vals, "")
	copy(kv.Keys[i+1:], kv.Keys[i:])
	copy(kv.Vals[i+1:], kv.Vals[i:])
	kv.Keys[i], kv.Vals[i] = key, value
}

func (kv *KV) del(key string) {
	if i, ok := kv.idx(key); ok {
		kv.Keys = append(kv.Keys[:i], kv.Keys[i+1:]...)
		kv.Vals = append(kv.Vals[:i], kv.Vals[i+1:]...)
	}
}

func (kv *KV) Set(key, value string) error {
	if kv.fail("set") {
		return ErrFault
	}
	kv.Ops = append(kv.Ops, "set "+key)
	kv.set(key, value)
	return nil
}

func (kv *KV) Delete(key string) error {
	if kv.fail("delete") {
		return ErrFault
	}
	kv.Ops = append(kv.Ops, "del "+key)
	kv.del(key)
	return nil
}

func (kv *KV) BeginBatch() sorted.BatchMutation { return sorted.NewBatchMutation() }

func (kv *KV) CommitBatch(b sorted.BatchMutation) error {
	if kv.fail("commit") {
		return ErrFault
	}
	bm, ok := b.(interface{ Mutations() []sorted.Mutation })
	if !ok {
		return errors.New("vmodel: unknown batch type")
	}
	kv.Ops = append(kv.Ops, "commit")
	for _, m := range bm.Mutations() {
		if m.IsDelete() {
			kv.del(m.Key())
		} else {
			kv.set(m.Key(), m.Value())
		}
	}
	return nil
}

func (kv *KV) Close() error { return nil }

func (kv *KV) Wipe() error {
	kv.Keys, kv.Vals = nil, nil
	return nil
}

type kvIter struct {
	keys, vals []string
	pos        int
	err        error
}

func (it *kvIter) Next() bool {
	it.pos++
	return it.pos < len(it.keys)
}
func (it *kvIter) Key() string        { return it.keys[it.pos] }
func (it *kvIter) KeyBytes() []byte   { return []byte(it.keys[it.pos]) }
func (it *kvIter) Value() string      { return it.vals[it.pos] }
func (it *kvIter) ValueBytes() []byte { return []byte(it.vals[it.pos]) }
func (it *kvIter) Close() error       { return it.err }

// Find returns keys >= start and (end == "" or < end), ascending; a snapshot.
func (kv *KV) Find(start, end string) sorted.Iterator {
	it := &kvIter{pos: -1}
	if kv.fail("find") {
		it.err = ErrFault
		return it
	}
	for i, k := range kv.Keys {
		if k >= start && (end == "" || k < end) {
			it.keys = append(it.keys, k)
			it.vals = append(it.vals, kv.Vals[i])
		}
	}
	return it
}

// ---------- blob store model ----------

// Store is a reference blob store: a map from ref to bytes kept as slices.
// It implements blobserver.Storage (without importing it) plus SubFetch.
type Store struct {
	Refs  []blob.Ref
	Datas [][]byte
	Fault func(op string) bool
	Ops   []string
	// WrongSize makes ReceiveBlob acknowledge with size+1 (a misreporting replica).
	WrongSize bool
	NoRemove  bool
	// EOFWithData makes the readers handed out by Fetch/SubFetch return io.EOF together with
	// the last bytes (legal for an io.Reader and typical of network stores) instead of on an
	// extra call.
	EOFWithData bool
}

type dataEOFReader struct{ r *bytes.Reader }

func (d dataEOFReader) Read(p []byte) (int, error) {
	n, err := d.r.Read(p)
	if err == nil && d.r.Len() == 0 {
		err = io.EOF
	}
	return n, err
}

func (s *Store) reader(b []byte) io.ReadCloser {
	if s.EOFWithData {
		return io.NopCloser(dataEOFReader{bytes.NewReader(b)})
	}
	return io.NopCloser(bytes.NewReader(b))
}

func (s *Store) fail(op string) bool {
	Boundary()
	return s.Fault != nil && s.Fault(op)
}

func (s *Store) find(br blob.Ref) int {
	for i, r := range s.Refs {
		if r == br {
			return i
		}
	}
	return -1
}

func (s *Store) Has(br blob.Ref) bool { return s.find(br) >= 0 }

func (s *Store) Get(br blob.Ref) []byte {
	if i := s.find(br); i >= 0 {
		return s.Datas[i]
	}
	return nil
}

func (s *Store) Put(br blob.Ref, data []byte) {
	if i := s.find(br); i >= 0 {
		return
	}
	s.Refs = append(s.Refs, br)
	s.Datas = append(s.Datas, data)
}

func (s *Store) Fetch(ctx context.Context, br blob.Ref) (io.ReadCloser, uint32, error) {
	s.Ops = append(s.Ops, "fetch")
	if s.fail("fetch") {
		return nil, 0, ErrFault
	}
	i := s.find(br)
	if i < 0 {
		return nil, 0, os.ErrNotExist
	}
	return s.reader(s.Datas[i]), uint32(len(s.Datas[i])), nil
}

func (s *Store) SubFetch(ctx context.Context, br blob.Ref, offset, length int64) (io.ReadCloser, error) {
	s.Ops = append(s.Ops, "subfetch")
	if s.fail("subfetch") {
		return nil, ErrFault
	}
	i := s.find(br)
	if i < 0 {
		return nil, os.ErrNotExist
	}
	if offset < 0 || length < 0 {
		return nil, blob.ErrNegativeSubFetch
	}
	d := s.Datas[i]
	if offset > int64(len(d)) {
		return nil, blob.ErrOutOfRangeOffsetSubFetch
	}
	end := int64(len(d))
	if length < end-offset {
		end = offset + length
	}
	return s.reader(d[offset:end]), nil
}

func (s *Store) ReceiveBlob(ctx context.Context, br blob.Ref, src io.Reader) (blob.SizedRef, error) {
	s.Ops = append(s.Ops, "receive")
	data, err := io.ReadAll(src)
	if err != nil {
		return blob.SizedRef{}, err
	}
	if s.fail("receive") {
		return blob.SizedRef{}, ErrFault
	}
	s.Put(br, data)
	n := uint32(len(data))
	if s.WrongSize {
		n++
	}
	return blob.SizedRef{Ref: br, Size: n}, nil
}

func (s *Store) StatBlobs(ctx context.Context, blobs []blob.Ref, fn func(blob.SizedRef) error) error {
	s.Ops = append(s.Ops, "stat")
	if s.fail("stat") {
		return ErrFault
	}
	for _, br := range blobs {
		if i := s.find(br); i >= 0 {
			if err := fn(blob.SizedRef{Ref: br, Size: uint32(len(s.Datas[i]))}); err != nil {
				return err
			}
		}
	}
	return nil
}

func (s *Store) EnumerateBlobs(ctx context.Context, dest chan<- blob.SizedRef, after string, limit int) error {
	defer close(dest)
	s.Ops = append(s.Ops, "enumerate")
	if s.fail("enumerate") {
		return ErrFault
	}
	idx := make([]int, 0, len(s.Refs))
	for i := range s.Refs {
		idx = append(idx, i)
	}
	sort.Slice(idx, func(a, b int) bool { return s.Refs[idx[a]].Less(s.Refs[idx[b]]) })
	n := 0
	for _, i := range idx {
		if n >= limit {
			break
		}
		if s.Refs[i].String() <= after {
			continue
		}
		dest <- blob.SizedRef{Ref: s.Refs[i], Size: uint32(len(s.Datas[i]))}
		n++
	}
	return nil
}

func (s *Store) RemoveBlobs(ctx context.Context, blobs []blob.Ref) error {
	s.Ops = append(s.Ops, "remove")
	if s.fail("remove") {
		return ErrFault
	}
	for _, br := range blobs {
		if i := s.find(br); i >= 0 {
			s.Refs = append(s.Refs[:i], s.Refs[i+1:]...)
			s.Datas = append(s.Datas[:i], s.Datas[i+1:]...)
		}
	}
	return nil
}

// OneFault returns a Fault func that fails exactly the k-th call (k symbolic via Choice)
// among the first n calls, or none (k == n).
func OneFault(n int) func(op string) bool {
	k := vrt.Choice(n + 1)
	c := 0
	return func(op string) bool {
		c++
		return c-1 == k
	}
}
