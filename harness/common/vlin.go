package vmodel

// Concurrent-client driver and linearizability oracle for blobserver.Storage
// implementations (C14).  Each client performs one operation on a small set of blobs in
// its own goroutine; the engine explores the interleavings (scheduling points at
// goroutine start, blocking operations and every mutex acquisition) and checks every
// memory access for data races.  After all clients returned, the recorded results must be
// explained by SOME sequential order of the operations over the reference map that
// respects their real-time order (an operation that returned before another was invoked
// comes first).

import (
	"context"
	"fmt"
	"io"
	"os"
	"sync"

	"perkeep.org/internal/vrt"
	"perkeep.org/pkg/blob"
)

// LinStorage is the part of blobserver.Storage the clients use.
type LinStorage interface {
	Fetch(ctx context.Context, br blob.Ref) (io.ReadCloser, uint32, error)
	ReceiveBlob(ctx context.Context, br blob.Ref, src io.Reader) (blob.SizedRef, error)
	StatBlobs(ctx context.Context, blobs []blob.Ref, fn func(blob.SizedRef) error) error
	EnumerateBlobs(ctx context.Context, dest chan<- blob.SizedRef, after string, limit int) error
	RemoveBlobs(ctx context.Context, blobs []blob.Ref) error
}

const (
	LinReceive = iota
	LinFetch
	LinStat
	LinEnumerate
	LinRemove
	LinOps
)

// LinOp is one client's operation and what it observed.
type LinOp struct {
	Kind   int
	Blob   int // index into the blob set
	Start  int64
	End    int64
	Err    error
	Found  bool   // fetch, stat
	Data   string // fetch
	Size   uint32 // stat, receive
	Listed []int  // enumerate: blob indices in the order listed
	Other  bool   // enumerate listed something that is not in the blob set
}

// LinBlob is a member of the blob set.
type LinBlob struct {
	Ref  blob.Ref
	Data string
}

type strReader struct {
	s   string
	i   int
	eof bool // an io.EOF was handed out: only then has blobserver.Receive's checkHashReader verified the digest
}

func (r *strReader) Read(p []byte) (int, error) {
	if r.i >= len(r.s) {
		r.eof = true
		return 0, io.EOF
	}
	n := copy(p, r.s[r.i:])
	r.i += n
	return n, nil
}

// LinRun performs op against st.
func LinRun(st LinStorage, blobs []LinBlob, op *LinOp) {
	ctx := context.Background()
	b := blobs[op.Blob]
	op.Start = vrt.Tick()
	switch op.Kind {
	case LinReceive:
		sb, err := st.ReceiveBlob(ctx, b.Ref, &strReader{s: b.Data})
		op.Err, op.Size = err, sb.Size
	case LinFetch:
		rc, size, err := st.Fetch(ctx, b.Ref)
		if err == nil {
			data, rerr := io.ReadAll(rc)
			rc.Close()
			op.Found, op.Data, op.Size, op.Err = true, string(data), size, rerr
		} else if err != os.ErrNotExist {
			op.Err = err
		}
	case LinStat:
		op.Err = st.StatBlobs(ctx, []blob.Ref{b.Ref}, func(sb blob.SizedRef) error {
			op.Found, op.Size = true, sb.Size
			return nil
		})
	case LinEnumerate:
		ch := make(chan blob.SizedRef, len(blobs)+2)
		op.Err = st.EnumerateBlobs(ctx, ch, "", len(blobs)+1)
		for sb := range ch {
			hit := false
			for i := range blobs {
				if blobs[i].Ref == sb.Ref {
					hit = true
					op.Listed = append(op.Listed, i)
					if int(sb.Size) != len(blobs[i].Data) {
						op.Other = true
					}
				}
			}
			if !hit {
				op.Other = true
			}
		}
	case LinRemove:
		op.Err = st.RemoveBlobs(ctx, []blob.Ref{b.Ref})
	}
	op.End = vrt.Tick()
}

// LinClients runs every op in its own goroutine and waits for all of them.
func LinClients(st LinStorage, blobs []LinBlob, ops []LinOp) {
	var wg sync.WaitGroup
	for i := range ops {
		wg.Add(1)
		op := &ops[i]
		go func() {
			defer wg.Done()
			LinRun(st, blobs, op)
		}()
	}
	wg.Wait()
}

// linExplains reports whether applying ops in the given order to the reference set (bit i =
// blob i present) reproduces every observation; it returns the final set.
func linExplains(blobs []LinBlob, ops []LinOp, order []int, have uint) (bool, uint) {
	for _, k := range order {
		op := &ops[k]
		bit := uint(1) << uint(op.Blob)
		switch op.Kind {
		case LinReceive:
			if int(op.Size) != len(blobs[op.Blob].Data) {
				return false, have
			}
			have |= bit
		case LinFetch:
			if op.Found != (have&bit != 0) {
				return false, have
			}
			if op.Found && (op.Data != blobs[op.Blob].Data || int(op.Size) != len(op.Data)) {
				return false, have
			}
		case LinStat:
			if op.Found != (have&bit != 0) {
				return false, have
			}
			if op.Found && int(op.Size) != len(blobs[op.Blob].Data) {
				return false, have
			}
		case LinEnumerate:
			if op.Other {
				return false, have
			}
			var want []int
			for i := range blobs { // blobs are given in ascending ref order
				if have&(1<<uint(i)) != 0 {
					want = append(want, i)
				}
			}
			if len(want) != len(op.Listed) {
				return false, have
			}
			for i := range want {
				if want[i] != op.Listed[i] {
					return false, have
				}
			}
		case LinRemove:
			have &^= bit
		}
	}
	return true, have
}

// LinCheck asserts that the observations of ops (run from the initial set have0, ending in the
// observed final set haveEnd) are linearizable.
func LinCheck(blobs []LinBlob, ops []LinOp, have0, haveEnd uint) {
	for i := range ops {
		f := &ops[i]
		if f.Err == nil {
			continue
		}
		vrt.Note(fmt.Sprintf("failed: op%d kind=%d blob=%d err=%v", i, f.Kind, f.Blob, f.Err))
		if f.Kind == LinReceive {
			for j := range ops {
				r := &ops[j]
				if r.Kind == LinRemove && r.Blob == f.Blob && !(r.End < f.Start || f.End < r.Start) {
					vrt.Assert(false, "a receive fails because the same blob is removed concurrently")
					return
				}
			}
		}
		vrt.Assert(false, "no operation of a healthy store fails")
		return
	}
	// a fetch that returns bytes other than the blob's is never explainable; name the situation
	for i := range ops {
		f := &ops[i]
		if f.Kind != LinFetch || !f.Found || f.Data == blobs[f.Blob].Data {
			continue
		}
		for j := range ops {
			r := &ops[j]
			if r.Kind == LinRemove && r.Blob == f.Blob && !(r.End < f.Start || f.End < r.Start) {
				vrt.Assert(false, "a fetch returned bytes that are not the blob's while the blob was being removed")
				return
			}
		}
		vrt.Assert(false, "a fetch returned bytes that are not the blob's")
		return
	}
	n := len(ops)
	perm := make([]int, n)
	used := make([]bool, n)
	ok := false
	var rec func(d int)
	rec = func(d int) {
		if ok {
			return
		}
		if d == n {
			// real-time order: an operation that returned before another started comes first
			for a := 0; a < n; a++ {
				for b := a + 1; b < n; b++ {
					if ops[perm[b]].End < ops[perm[a]].Start {
						return
					}
				}
			}
			if good, end := linExplains(blobs, ops, perm, have0); good && end == haveEnd {
				ok = true
			}
			return
		}
		for i := 0; i < n; i++ {
			if !used[i] {
				used[i] = true
				perm[d] = i
				rec(d + 1)
				used[i] = false
			}
		}
	}
	rec(0)
	if !ok {
		for i := range ops {
			o := &ops[i]
			vrt.Note(fmt.Sprintf("op%d kind=%d blob=%d start=%d end=%d found=%v data=%q size=%d listed=%v other=%v have0=%d end=%d",
				i, o.Kind, o.Blob, o.Start, o.End, o.Found, o.Data, o.Size, o.Listed, o.Other, have0, haveEnd))
		}
	}
	vrt.Assert(ok, "the observed results are explained by a sequential order of the calls that respects real time")
}

// LinFinal reads the final contents of st (sequentially, after all clients returned): what is
// stat-able must also be fetched back byte for byte.
func LinFinal(st LinStorage, blobs []LinBlob) uint {
	var have uint
	for i := range blobs {
		i := i
		err := st.StatBlobs(context.Background(), []blob.Ref{blobs[i].Ref}, func(sb blob.SizedRef) error {
			have |= 1 << uint(i)
			vrt.Assert(int(sb.Size) == len(blobs[i].Data), "afterwards every blob is reported with its size")
			return nil
		})
		vrt.Assert(err == nil, "final stat succeeds")
		rc, _, err := st.Fetch(context.Background(), blobs[i].Ref)
		if have&(1<<uint(i)) != 0 {
			vrt.Assert(err == nil, "afterwards every stored blob can be fetched")
			if err == nil {
				data, rerr := io.ReadAll(rc)
				rc.Close()
				vrt.Assert(rerr == nil && string(data) == blobs[i].Data, "afterwards every stored blob is fetched back byte for byte")
			}
		} else {
			vrt.Assert(err == os.ErrNotExist, "afterwards an absent blob is reported as not existing")
		}
	}
	return have
}

// ---------- sequential histories against the reference map (C01) ----------

// SeqHistory applies `steps` operations, each chosen among receive / fetch / stat (whole blob
// set) / enumerate (any cursor drawn from the blob names, any limit 1..len+1) / remove on one of
// the blobs, to st and to the reference map, and asserts after every step that st answered like
// the map. have is the initial contents (bit i = blobs[i] present); blobs are in ascending ref
// order. It returns the final contents.
func SeqHistory(st LinStorage, blobs []LinBlob, have uint, steps int) uint {
	return seqHistory(st, blobs, have, steps, false)
}

// SeqReads is SeqHistory restricted to fetch / stat / enumerate.
func SeqReads(st LinStorage, blobs []LinBlob, have uint, steps int) uint {
	return seqHistory(st, blobs, have, steps, true)
}

func seqHistory(st LinStorage, blobs []LinBlob, have uint, steps int, readsOnly bool) uint {
	ctx := context.Background()
	for s := 0; s < steps; s++ {
		kind := vrt.Choice(LinOps)
		if readsOnly {
			vrt.Assume(kind != LinReceive && kind != LinRemove)
		}
		switch kind {
		case LinReceive:
			i := vrt.Choice(len(blobs))
			src := &strReader{s: blobs[i].Data}
			sb, err := st.ReceiveBlob(ctx, blobs[i].Ref, src)
			vrt.Assert(err == nil, "receive succeeds")
			vrt.Assert(src.eof, "a store acknowledges an upload only after reading its source to the end (the upload's digest is verified at EOF, also for a blob the store already holds)")
			vrt.Assert(sb.Ref == blobs[i].Ref && int(sb.Size) == len(blobs[i].Data), "receive acknowledges the blob with its true size")
			have |= 1 << uint(i)
		case LinFetch:
			i := vrt.Choice(len(blobs))
			rc, size, err := st.Fetch(ctx, blobs[i].Ref)
			if have&(1<<uint(i)) != 0 {
				vrt.Assert(err == nil, "a stored blob is fetched")
				if err == nil {
					data, rerr := io.ReadAll(rc)
					rc.Close()
					vrt.Assert(rerr == nil && string(data) == blobs[i].Data && int(size) == len(data), "fetch returns the blob's bytes and size")
				}
			} else {
				vrt.Assert(err == os.ErrNotExist, "fetching an absent blob reports os.ErrNotExist")
			}
		case LinStat:
			var refs []blob.Ref
			for i := range blobs {
				refs = append(refs, blobs[i].Ref)
			}
			var seen uint
			err := st.StatBlobs(ctx, refs, func(sb blob.SizedRef) error {
				hit := false
				for i := range blobs {
					if blobs[i].Ref == sb.Ref {
						hit = true
						vrt.Assert(seen&(1<<uint(i)) == 0, "stat reports a blob at most once")
						seen |= 1 << uint(i)
						vrt.Assert(int(sb.Size) == len(blobs[i].Data), "stat reports the true size")
					}
				}
				vrt.Assert(hit, "stat reports only requested blobs")
				return nil
			})
			vrt.Assert(err == nil, "stat succeeds")
			vrt.Assert(seen == have, "stat reports exactly the stored blobs")
		case LinEnumerate:
			after := ""
			from := vrt.Choice(len(blobs) + 1) // cursor: none, or the name of blob from-1
			if from > 0 {
				after = blobs[from-1].Ref.String()
			}
			limit := 1 + vrt.Choice(len(blobs)+1)
			ch := make(chan blob.SizedRef, len(blobs)+2)
			err := st.EnumerateBlobs(ctx, ch, after, limit)
			vrt.Assert(err == nil, "enumerate succeeds")
			var want []int
			for i := from; i < len(blobs) && len(want) < limit; i++ {
				if have&(1<<uint(i)) != 0 {
					want = append(want, i)
				}
			}
			n := 0
			for sb := range ch {
				vrt.Assert(n < len(want), "enumerate lists no more than the stored blobs after the cursor, up to the limit")
				if n < len(want) {
					vrt.Assert(sb.Ref == blobs[want[n]].Ref && int(sb.Size) == len(blobs[want[n]].Data), "enumerate lists the stored blobs after the cursor in order with their sizes")
				}
				n++
			}
			vrt.Assert(n == len(want), "enumerate lists every stored blob after the cursor, up to the limit")
		case LinRemove:
			i := vrt.Choice(len(blobs))
			err := st.RemoveBlobs(ctx, []blob.Ref{blobs[i].Ref})
			vrt.Assert(err == nil, "remove succeeds")
			have &^= 1 << uint(i)
		}
	}
	if sf, ok := st.(blob.SubFetcher); ok && !NoSweep {
		SubFetchSweep(sf, blobs, have)
	}
	return have
}

// NoSweep switches the ranged-fetch sweep at the end of SeqHistory off (stores whose ranged
// fetch does not depend on the history run it once in an entry of its own).
var NoSweep bool

// SubFetchSweep performs every ranged fetch (offset 0..size+1, length 0, 1 and size+1) of every
// blob against the reference map: exactly the requested bytes of a stored blob, clamped to its
// end; an error for an absent blob or an offset beyond the end.
func SubFetchSweep(sf blob.SubFetcher, blobs []LinBlob, have uint) {
	ctx := context.Background()
	for i := range blobs {
		n := len(blobs[i].Data)
		for off := 0; off <= n+1; off++ {
			for _, length := range []int{0, 1, n + 1} {
				rc, err := sf.SubFetch(ctx, blobs[i].Ref, int64(off), int64(length))
				if have&(1<<uint(i)) == 0 {
					vrt.Assert(err != nil, "a ranged fetch of an absent blob fails")
					continue
				}
				if off > n {
					vrt.Assert(err != nil, "a ranged fetch starting beyond the blob's end fails")
					continue
				}
				vrt.Assert(err == nil, "a ranged fetch within a stored blob succeeds")
				if err != nil {
					continue
				}
				data, rerr := io.ReadAll(rc)
				rc.Close()
				end := off + length
				if end > n {
					end = n
				}
				vrt.Assert(rerr == nil && string(data) == blobs[i].Data[off:end], "a ranged fetch returns exactly the requested bytes, clamped to the blob's end")
			}
		}
	}
}

// SmallBlobs returns n blobs with distinct small test refs in ascending order.
func SmallBlobs(n int) []LinBlob {
	var out []LinBlob
	data := []string{"a", "bb", "ccc", "dddd"}
	for i := 0; i < n; i++ {
		out = append(out, LinBlob{Ref: blob.VerifSmallRef(byte(i + 1)), Data: data[i]})
	}
	return out
}

// ---------- one operation with a failing lower-layer call (C13) ----------

// FaultStep performs one operation on st while the k-th call into the lower layers fails (arm
// installs the fault, disarm removes it), then checks that nothing but that call was affected:
// other blobs read as before, the operation's blob is in its old or its new state (the new one
// if the call reported success) consistently for fetch, stat and enumerate, and the store keeps
// working afterwards.
func FaultStep(st LinStorage, blobs []LinBlob, have uint, arm, disarm func()) {
	ctx := context.Background()
	kind := vrt.Choice(LinOps)
	i := vrt.Choice(len(blobs))
	bit := uint(1) << uint(i)
	arm()
	var err error
	post := have
	switch kind {
	case LinReceive:
		var sb blob.SizedRef
		sb, err = st.ReceiveBlob(ctx, blobs[i].Ref, &strReader{s: blobs[i].Data})
		if err == nil {
			vrt.Assert(int(sb.Size) == len(blobs[i].Data), "an acknowledged receive reports the true size")
		}
		post |= bit
	case LinFetch:
		var rc io.ReadCloser
		rc, _, err = st.Fetch(ctx, blobs[i].Ref)
		if err == nil {
			data, rerr := io.ReadAll(rc)
			rc.Close()
			vrt.Assert(have&bit != 0, "a fetch under fault does not invent a blob")
			if rerr == nil {
				vrt.Assert(string(data) == blobs[i].Data, "a fetch that succeeds under fault returns the blob's bytes")
			}
		}
	case LinStat:
		err = st.StatBlobs(ctx, []blob.Ref{blobs[i].Ref}, func(sb blob.SizedRef) error {
			vrt.Assert(sb.Ref == blobs[i].Ref && have&bit != 0 && int(sb.Size) == len(blobs[i].Data), "a stat under fault reports only true facts")
			return nil
		})
	case LinEnumerate:
		ch := make(chan blob.SizedRef, len(blobs)+2)
		err = st.EnumerateBlobs(ctx, ch, "", len(blobs)+1)
		for sb := range ch {
			hit := false
			for j := range blobs {
				if blobs[j].Ref == sb.Ref {
					hit = true
					vrt.Assert(have&(1<<uint(j)) != 0 && int(sb.Size) == len(blobs[j].Data), "an enumeration under fault lists only true facts")
				}
			}
			vrt.Assert(hit, "an enumeration under fault lists only blobs of the store")
		}
	case LinRemove:
		err = st.RemoveBlobs(ctx, []blob.Ref{blobs[i].Ref})
		post &^= bit
	}
	disarm()
	if err != nil {
		vrt.Cover("failed")
	}
	// what is visible now
	var now uint
	for j := range blobs {
		j := j
		serr := st.StatBlobs(ctx, []blob.Ref{blobs[j].Ref}, func(sb blob.SizedRef) error {
			now |= 1 << uint(j)
			vrt.Assert(int(sb.Size) == len(blobs[j].Data), "afterwards stat reports true sizes")
			return nil
		})
		vrt.Assert(serr == nil, "no sticky error: stat works after the failed call")
		rc, _, ferr := st.Fetch(ctx, blobs[j].Ref)
		if now&(1<<uint(j)) != 0 {
			vrt.Assert(ferr == nil, "afterwards what is stat-able is fetchable")
			if ferr == nil {
				data, rerr := io.ReadAll(rc)
				rc.Close()
				vrt.Assert(rerr == nil && string(data) == blobs[j].Data, "afterwards every visible blob has its bytes")
			}
		} else {
			vrt.Assert(ferr == os.ErrNotExist, "afterwards what is not stat-able is not fetchable")
		}
	}
	vrt.Assert(now&^bit == have&^bit, "blobs the call did not name are unaffected")
	if err == nil {
		vrt.Assert(now == post, "a call that reported success took effect")
	} else {
		vrt.Assert(now == have || now == post, "a failed call leaves its blob in the old or the new state")
	}
	ch := make(chan blob.SizedRef, len(blobs)+2)
	eerr := st.EnumerateBlobs(ctx, ch, "", len(blobs)+1)
	vrt.Assert(eerr == nil, "no sticky error: enumerate works after the failed call")
	var listed uint
	for sb := range ch {
		for j := range blobs {
			if blobs[j].Ref == sb.Ref {
				listed |= 1 << uint(j)
			}
		}
	}
	vrt.Assert(listed == now, "afterwards enumerate agrees with stat")
	// the store keeps working
	_, rerr := st.ReceiveBlob(ctx, blobs[i].Ref, &strReader{s: blobs[i].Data})
	vrt.Assert(rerr == nil, "no sticky error: a healthy receive succeeds after the failed call")
	rc, _, ferr := st.Fetch(ctx, blobs[i].Ref)
	vrt.Assert(ferr == nil, "a blob received after the failed call is fetchable")
	if ferr == nil {
		data, _ := io.ReadAll(rc)
		rc.Close()
		vrt.Assert(string(data) == blobs[i].Data, "a blob received after the failed call has its bytes")
	}
}

// SharedFault makes the k-th call (k in 0..n-1, or none) into any of the given model stores and
// KVs fail; it returns arm and disarm functions.
func SharedFault(n int, stores []*Store, kvs []*KV) (arm, disarm func()) {
	k := vrt.Choice(n + 1)
	c := 0
	on := false
	f := func(op string) bool {
		if !on {
			return false
		}
		c++
		return c-1 == k
	}
	for _, s := range stores {
		s.Fault = f
	}
	for _, kv := range kvs {
		kv.Fault = f
	}
	return func() { on = true }, func() { on = false }
}
