package search

// C08: a search returns exactly the matching blobs, however it is planned: for every
// world and constraint tree of the fragment, Handler.Query returns the reference match
// set under every sort order (i.e. under every candidate source the planner picks).

import (
	"context"
	"time"

	"perkeep.org/internal/vrt"
	"perkeep.org/pkg/blob"
	"perkeep.org/pkg/index"
	"perkeep.org/pkg/types/camtypes"
)

type vIndex struct {
	index.Interface
	c *index.Corpus
}

func (x vIndex) RLock()   {}
func (x vIndex) RUnlock() {}
func (x vIndex) EnumerateBlobMeta(ctx context.Context, fn func(camtypes.BlobMeta) bool) error {
	x.c.EnumerateBlobMeta(fn)
	return nil
}

var vSigner = blob.VerifSmallRef(200)

// one byte out of {x, y}
func vXY() string {
	b := vrt.U8()
	vrt.Assume(b == 'x' || b == 'y')
	return string([]byte{b})
}

// node type out of {"foo", "bar"} as symbolic bytes
func vNodeType() string {
	s := vrt.String(3)
	vrt.Assume(s == "foo" || s == "bar")
	return s
}

type vPerm struct {
	isFile   bool // the world's one non-permanode blob (camliType file)
	ref      blob.Ref
	nodeType string // "" = no camliNodeType claim
	tag      string // "" = no tag claim; else 2 bytes over {x,y}
}

func vWorld(n int) (*Handler, []vPerm) {
	c := index.VerifNewCorpus()
	c.VerifSetSigner(vSigner, "KEY1")
	var ps []vPerm
	seq := byte(100)
	claim := func(pn blob.Ref, typ, attr, val string, sec int64) {
		seq++
		err := c.VerifMergeClaim(camtypes.Claim{BlobRef: blob.VerifSmallRef(seq), Signer: vSigner, Permanode: pn,
			Date: time.Unix(sec, 0), Type: typ, Attr: attr, Value: val})
		vrt.Assume(err == nil)
	}
	for i := 0; i < n; i++ {
		p := vPerm{ref: blob.VerifSmallRef(byte(10 + i))}
		c.VerifAddBlobMeta(p.ref, 100, "permanode")
		claim(p.ref, "set-attribute", "title", "t", int64(10+i)) // every permanode has a time
		switch vrt.Choice(3) {
		case 1:
			p.nodeType = vNodeType()
			claim(p.ref, "set-attribute", "camliNodeType", p.nodeType, int64(20+i))
		case 2:
			p.nodeType = vNodeType()
			claim(p.ref, "add-attribute", "camliNodeType", p.nodeType, int64(20+i))
		}
		if vrt.Choice(2) == 1 {
			p.tag = vXY() + vXY()
			claim(p.ref, "set-attribute", "tag", p.tag, int64(30+i))
		}
		ps = append(ps, p)
	}
	// a non-permanode blob that must never match permanode constraints
	c.VerifAddBlobMeta(blob.VerifSmallRef(90), 5, "file")
	return &Handler{index: vIndex{c: c}, corpus: c}, ps
}

// leaf constraints with symbolic parameters, and their reference meaning
type vLeaf struct {
	mk  func() *Constraint
	ref func(p vPerm) bool
}

func vLeaves() []vLeaf {
	nt := vNodeType()
	tv := vXY() + vXY()
	pre, suf := vXY(), vXY()
	return []vLeaf{
		{func() *Constraint { return &Constraint{Permanode: &PermanodeConstraint{Attr: "camliNodeType", Value: nt}} },
			func(p vPerm) bool { return !p.isFile && p.nodeType == nt }},
		{func() *Constraint { return &Constraint{Permanode: &PermanodeConstraint{Attr: "tag", Value: tv}} },
			func(p vPerm) bool { return !p.isFile && p.tag == tv }},
		{func() *Constraint { return &Constraint{CamliType: "permanode"} },
			func(p vPerm) bool { return !p.isFile }},
		{func() *Constraint { return &Constraint{CamliType: "file"} },
			func(p vPerm) bool { return p.isFile }},
		{func() *Constraint {
			return &Constraint{Permanode: &PermanodeConstraint{Attr: "tag", ValueMatches: &StringConstraint{HasPrefix: pre, HasSuffix: suf}}}
		},
			func(p vPerm) bool { return !p.isFile && len(p.tag) == 2 && p.tag[:1] == pre && p.tag[1:] == suf }},
	}
}

// vTree picks a constraint tree: leaf | not leaf | leaf op leaf | permanode and (leaf or leaf)
func vTree() (*Constraint, func(p vPerm) bool) {
	ls := vLeaves()
	pick := func() vLeaf { return ls[vrt.Choice(len(ls))] }
	logical := func(op string, a, b *Constraint) *Constraint {
		return &Constraint{Logical: &LogicalConstraint{Op: op, A: a, B: b}}
	}
	switch vrt.Choice(4) {
	case 0:
		l := pick()
		return l.mk(), l.ref
	case 1:
		l := pick()
		// "not" must stay within permanodes for the permanode-only sorts
		return logical("and", &Constraint{CamliType: "permanode"}, logical("not", l.mk(), nil)), func(p vPerm) bool { return !p.isFile && !l.ref(p) }
	case 2:
		a, b := pick(), pick()
		switch vrt.Choice(3) {
		case 0:
			return logical("and", a.mk(), b.mk()), func(p vPerm) bool { return a.ref(p) && b.ref(p) }
		case 1:
			return logical("or", a.mk(), b.mk()), func(p vPerm) bool { return a.ref(p) || b.ref(p) }
		}
		return logical("xor", a.mk(), b.mk()), func(p vPerm) bool { return a.ref(p) != b.ref(p) }
	}
	a, b := pick(), pick()
	return logical("and", &Constraint{CamliType: "permanode"}, logical("or", a.mk(), b.mk())), func(p vPerm) bool { return !p.isFile && (a.ref(p) || b.ref(p)) }
}

func vQueryCheck(srt SortType) {
	h, ps := vWorld(2 + vrt.Tier())
	cons, ref := vTree()
	q := &SearchQuery{Constraint: cons, Limit: -1, Sort: srt}
	res, err := h.Query(context.Background(), q)
	if err != nil {
		// some sort/constraint combinations are documented as unsupported: not a wrong answer
		vrt.Cover("query-error")
		return
	}
	vrt.Cover("query-ok")
	for i, p := range ps {
		n := 0
		for _, b := range res.Blobs {
			if b.Blob == p.ref {
				n++
			}
		}
		if ref(p) {
			vrt.Assert(n >= 1, "a matching permanode is returned (no match missed)")
		} else {
			vrt.Assert(n == 0, "a non-matching permanode is not returned")
		}
		vrt.Assert(n <= 1, "no blob is returned twice")
		_ = i
	}
	// the world's file blob
	nf := 0
	for _, b := range res.Blobs {
		if b.Blob == blob.VerifSmallRef(90) {
			nf++
		}
	}
	if ref(vPerm{isFile: true}) {
		vrt.Assert(nf == 1, "a matching non-permanode blob is returned once")
	} else {
		vrt.Assert(nf == 0, "a non-permanode blob that does not match is not returned")
	}
	if srt == BlobRefAsc {
		for i := 1; i < len(res.Blobs); i++ {
			vrt.Assert(res.Blobs[i-1].Blob.Less(res.Blobs[i].Blob), "BlobRefAsc results ascend")
		}
	}
}

func VK08Unsorted()         { vQueryCheck(Unsorted) }
func VK08BlobRefAsc()       { vQueryCheck(BlobRefAsc) }
func VK08CreatedDesc()      { vQueryCheck(CreatedDesc) }
func VK08CreatedAsc()       { vQueryCheck(CreatedAsc) }
func VK08LastModifiedDesc() { vQueryCheck(LastModifiedDesc) }
func VK08Unspecified()      { vQueryCheck(UnspecifiedSort) }

// ---- relation constraints (parent / child over camliMember and camliPath:*) ----

// VK08Relation: a parent permanode P and two children C1, C2 (each with an optional 1-byte tag)
// linked by a history of 3 relation claims on P (add / delete camliMember C, set camliPath:a=C,
// delete camliPath:a); queries "child any/all has tag V" and "parent any/all has tag V" must
// return exactly the permanodes for which the relation currently holds.
func vRelation(srt SortType) {
	c := index.VerifNewCorpus()
	c.VerifSetSigner(vSigner, "KEY1")
	seq := byte(100)
	claim := func(pn blob.Ref, typ, attr, val string, sec int64) {
		seq++
		err := c.VerifMergeClaim(camtypes.Claim{BlobRef: blob.VerifSmallRef(seq), Signer: vSigner, Permanode: pn,
			Date: time.Unix(sec, 0), Type: typ, Attr: attr, Value: val})
		vrt.Assume(err == nil)
	}
	refs := []blob.Ref{blob.VerifSmallRef(10), blob.VerifSmallRef(11), blob.VerifSmallRef(12)} // P, C1, C2
	tags := make([]string, 3)
	for i, r := range refs {
		c.VerifAddBlobMeta(r, 100, "permanode")
		claim(r, "set-attribute", "title", "t", int64(10+i))
		if vrt.Choice(2) == 1 {
			tags[i] = vXY()
			claim(r, "set-attribute", "tag", tags[i], int64(20+i))
		}
	}
	// relation history on P
	member := [3]bool{}
	path := 0 // child index held by camliPath:a, 0 = none
	for k := 0; k < 3; k++ {
		child := 1 + vrt.Choice(2)
		switch vrt.Choice(4) {
		case 0:
			claim(refs[0], "add-attribute", "camliMember", refs[child].String(), int64(40+k))
			member[child] = true
		case 1:
			claim(refs[0], "del-attribute", "camliMember", refs[child].String(), int64(40+k))
			member[child] = false
		case 2:
			claim(refs[0], "set-attribute", "camliPath:a", refs[child].String(), int64(40+k))
			path = child
		case 3:
			claim(refs[0], "del-attribute", "camliPath:a", "", int64(40+k))
			path = 0
		}
	}
	isChild := func(i int) bool { return i > 0 && (member[i] || path == i) }
	h := &Handler{index: vIndex{c: c}, corpus: c}
	v := vXY()
	leaf := &Constraint{Permanode: &PermanodeConstraint{Attr: "tag", Value: v}}
	rel := &RelationConstraint{}
	all := vrt.Bool()
	if all {
		rel.All = leaf
	} else {
		rel.Any = leaf
	}
	parentRel := vrt.Bool()
	if parentRel {
		rel.Relation = "parent"
	} else {
		rel.Relation = "child"
	}
	q := &SearchQuery{Constraint: &Constraint{Permanode: &PermanodeConstraint{Relation: rel}}, Limit: -1, Sort: srt}
	res, err := h.Query(context.Background(), q)
	vrt.Assert(err == nil, "a relation query over a corpus succeeds")
	if err != nil {
		return
	}
	for i, r := range refs {
		// the related permanodes of i under the relation, and whether they match the leaf
		var related []int
		if parentRel {
			if isChild(i) {
				related = append(related, 0)
			}
		} else if i == 0 {
			for j := 1; j <= 2; j++ {
				if isChild(j) {
					related = append(related, j)
				}
			}
		}
		good, bad := 0, 0
		for _, j := range related {
			if tags[j] == v {
				good++
			} else {
				bad++
			}
		}
		want := good > 0
		if all {
			want = good > 0 && bad == 0
		}
		n := 0
		for _, b := range res.Blobs {
			if b.Blob == r {
				n++
			}
		}
		if len(related) > 0 {
			vrt.Cover("related")
		}
		if want {
			vrt.Assert(n == 1, "a permanode whose relation currently holds is returned once")
		} else {
			vrt.Assert(n == 0, "a permanode whose relation does not (or no longer) hold is not returned")
		}
	}
}

func VK08RelationUnsorted()    { vRelation(Unsorted) }
func VK08RelationCreatedDesc() { vRelation(CreatedDesc) }
