package proxycache

// C14 (kernel): concurrent clients of the proxy cache (cache and origin are reference stores; a
// small byte budget forces evictions) see a linearizable, race-free map.

import (
	"perkeep.org/internal/vmodel"
	"perkeep.org/internal/vrt"
	"perkeep.org/pkg/blob"
)

func vLinClients(n, sched int, yields bool, budget int64) {
	vrt.Preemptions(sched)
	vrt.Schedules(3 + vrt.Tier()) // orders explored at points where the running goroutine stops anyway
	vmodel.YieldAtBoundaries = yields
	a, b := vmodel.LinBlob{Ref: blob.VerifSmallRef(1), Data: "a"}, vmodel.LinBlob{Ref: blob.VerifSmallRef(2), Data: "bb"}
	blobs := []vmodel.LinBlob{a, b}
	sto := New(budget, &vmodel.Store{}, &vmodel.Store{})
	var have0 uint
	all := vrt.Bool()
	for i := range blobs {
		// initial contents: nothing or everything (quick), any subset (thorough)
		if (vrt.Tier() == 0 && all) || (vrt.Tier() > 0 && vrt.Bool()) {
			op := vmodel.LinOp{Kind: vmodel.LinReceive, Blob: i}
			vmodel.LinRun(sto, blobs, &op)
			vrt.Assert(op.Err == nil, "setup receive succeeds")
			have0 |= 1 << uint(i)
		}
	}
	ops := make([]vmodel.LinOp, n)
	for i := range ops {
		ops[i].Kind = vrt.Choice(vmodel.LinOps)
		ops[i].Blob = vrt.Choice(len(blobs))
		vrt.Assume(i == 0 || ops[i-1].Kind*8+ops[i-1].Blob <= ops[i].Kind*8+ops[i].Blob)
	}
	vrt.RaceDetect(true)
	vrt.PreemptAtLocks(true)
	vmodel.LinClients(sto, blobs, ops)
	vrt.PreemptAtLocks(false)
	vmodel.LinCheck(blobs, ops, have0, vmodel.LinFinal(sto, blobs))
	vrt.Cover("done")
}

func VK14eProxycache2()           { vLinClients(2, 1+vrt.Tier(), false, 1<<20) }
func VK14eProxycacheEvict2()      { vLinClients(2, 1+vrt.Tier(), false, 2) }
func VK14eProxycacheYield2()      { vLinClients(2, 1+vrt.Tier(), true, 1<<20) }
func VK14eProxycacheEvictYield2() { vLinClients(2, 1+vrt.Tier(), true, 2) }
