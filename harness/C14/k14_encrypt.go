package encrypt

// C14 (kernel): concurrent clients of the encrypting store (cipher and hash models of k11.go;
// ciphertext store, meta store and index are reference models). RemoveBlobs is not implemented
// by this store, so clients receive, fetch, stat and enumerate.

import (
	"context"
	"strings"

	"perkeep.org/internal/vmodel"
	"perkeep.org/internal/vrt"
)

func VK14gEncryptYield2() {
	vrt.Preemptions(1 + vrt.Tier())
	vrt.Schedules(3 + vrt.Tier())
	vmodel.YieldAtBoundaries = true
	vInstall()
	vStandIn = true
	blobs := []vmodel.LinBlob{{Data: "a"}, {Data: "bb"}}
	for i := range blobs {
		blobs[i].Ref = vRefOf([]byte(blobs[i].Data))
	}
	s := vNew(&vmodel.Store{}, &vmodel.Store{}, &vmodel.KV{})
	var have0 uint
	for i := range blobs {
		if vrt.Bool() {
			_, err := s.ReceiveBlob(context.Background(), blobs[i].Ref, strings.NewReader(blobs[i].Data))
			vrt.Assert(err == nil, "setup receive succeeds")
			have0 |= 1 << uint(i)
		}
	}
	ops := make([]vmodel.LinOp, 2)
	for i := range ops {
		ops[i].Kind = vrt.Choice(vmodel.LinOps - 1) // no remove
		ops[i].Blob = vrt.Choice(len(blobs))
		vrt.Assume(i == 0 || ops[i-1].Kind*8+ops[i-1].Blob <= ops[i].Kind*8+ops[i].Blob)
	}
	vrt.RaceDetect(true)
	vrt.PreemptAtLocks(true)
	vmodel.LinClients(s, blobs, ops)
	vrt.PreemptAtLocks(false)
	vrt.Quiesce()
	vmodel.LinCheck(blobs, ops, have0, vmodel.LinFinal(s, blobs))
	vrt.Cover("done")
}
