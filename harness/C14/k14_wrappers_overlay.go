package overlay

// C14 (kernel): concurrent clients of the overlay store over model layers.

import (
	"perkeep.org/internal/vmodel"
	"perkeep.org/internal/vrt"
)

func VK14hOverlayYield2() {
	vrt.Preemptions(1 + vrt.Tier())
	vrt.Schedules(3 + vrt.Tier())
	vmodel.YieldAtBoundaries = true
	blobs := vmodel.SmallBlobs(2)
	lower, upper, del := &vmodel.Store{}, &vmodel.Store{}, &vmodel.KV{}
	var have0 uint
	for i := range blobs {
		switch vrt.Choice(3 + vrt.Tier()) {
		case 1:
			lower.Put(blobs[i].Ref, []byte(blobs[i].Data))
			have0 |= 1 << uint(i)
		case 2:
			upper.Put(blobs[i].Ref, []byte(blobs[i].Data))
			have0 |= 1 << uint(i)
		case 3: // in the lower layer, deleted through the overlay
			lower.Put(blobs[i].Ref, []byte(blobs[i].Data))
			del.Set(blobs[i].Ref.String(), "1")
		}
	}
	sto := &overlayStorage{lower: lower, upper: upper, deleted: del}
	ops := make([]vmodel.LinOp, 2)
	for i := range ops {
		ops[i].Kind = vrt.Choice(vmodel.LinOps)
		ops[i].Blob = vrt.Choice(len(blobs))
		vrt.Assume(i == 0 || ops[i-1].Kind*8+ops[i-1].Blob <= ops[i].Kind*8+ops[i].Blob)
	}
	vrt.RaceDetect(true)
	vrt.PreemptAtLocks(true)
	vmodel.LinClients(sto, blobs, ops)
	vrt.PreemptAtLocks(false)
	vrt.Quiesce()
	vmodel.LinCheck(blobs, ops, have0, vmodel.LinFinal(sto, blobs))
	vrt.Cover("done")
}
