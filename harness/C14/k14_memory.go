package memory

// C14 (kernel): concurrent clients of the in-memory store see a linearizable, race-free map.

import (
	"perkeep.org/internal/vmodel"
	"perkeep.org/internal/vrt"
	"perkeep.org/pkg/blob"
)

func vBlobs() []vmodel.LinBlob {
	a, b := vmodel.LinBlob{Ref: blob.RefFromString("a"), Data: "a"}, vmodel.LinBlob{Ref: blob.RefFromString("bb"), Data: "bb"}
	if b.Ref.Less(a.Ref) {
		a, b = b, a
	}
	return []vmodel.LinBlob{a, b}
}

func vClients(n int, sched int) {
	vrt.Schedules(sched)
	blobs := vBlobs()
	st := &Storage{}
	var have0 uint
	for i := range blobs {
		if vrt.Bool() {
			op := vmodel.LinOp{Kind: vmodel.LinReceive, Blob: i}
			vmodel.LinRun(st, blobs, &op)
			vrt.Assert(op.Err == nil, "setup receive succeeds")
			have0 |= 1 << uint(i)
		}
	}
	ops := make([]vmodel.LinOp, n)
	for i := range ops {
		ops[i].Kind = vrt.Choice(vmodel.LinOps)
		ops[i].Blob = vrt.Choice(len(blobs))
	}
	vrt.RaceDetect(true)
	vrt.PreemptAtLocks(true)
	vmodel.LinClients(st, blobs, ops)
	vrt.PreemptAtLocks(false)
	vmodel.LinCheck(blobs, ops, have0, vmodel.LinFinal(st, blobs))
	vrt.Cover("done")
}

func VK14aMemory2() { vClients(2, 6) }
func VK14aMemory3() { vClients(3, 6) }
