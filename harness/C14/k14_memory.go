package memory

// C14 (kernel): concurrent clients of the in-memory store see a linearizable, race-free map.

import (
	"hash"

	"perkeep.org/internal/vmodel"
	"perkeep.org/internal/vrt"
	"perkeep.org/pkg/blob"
)

func vBlobs() []vmodel.LinBlob {
	// the digest comparison is not the subject here (C02): refs are small test refs and
	// HashMatches is stubbed to accept
	vrt.Stub("(perkeep.org/pkg/blob.Ref).HashMatches", func(r blob.Ref, h hash.Hash) bool { return true })
	return []vmodel.LinBlob{{Ref: blob.VerifSmallRef(1), Data: "a"}, {Ref: blob.VerifSmallRef(2), Data: "bb"}}
}

func vClients(n int, sched int) {
	vrt.Preemptions(sched)
	vrt.Schedules(3 + vrt.Tier()) // orders explored at points where the running goroutine stops anyway
	blobs := vBlobs()
	st := &Storage{}
	var have0 uint
	all := vrt.Bool()
	for i := range blobs {
		// initial contents: nothing or everything (quick), any subset (thorough)
		if (vrt.Tier() == 0 && all) || (vrt.Tier() > 0 && vrt.Bool()) {
			op := vmodel.LinOp{Kind: vmodel.LinReceive, Blob: i}
			vmodel.LinRun(st, blobs, &op)
			vrt.Assert(op.Err == nil, "setup receive succeeds")
			have0 |= 1 << uint(i)
		}
	}
	ops := make([]vmodel.LinOp, n)
	for i := range ops {
		ops[i].Kind = vrt.Choice(vmodel.LinOps)
		ops[i].Blob = vrt.Choice(len(blobs))
		// clients are interchangeable: only ascending (kind, blob) sequences are explored
		vrt.Assume(i == 0 || ops[i-1].Kind*8+ops[i-1].Blob <= ops[i].Kind*8+ops[i].Blob)
	}
	vrt.RaceDetect(true)
	vrt.PreemptAtLocks(true)
	vmodel.LinClients(st, blobs, ops)
	vrt.PreemptAtLocks(false)
	vmodel.LinCheck(blobs, ops, have0, vmodel.LinFinal(st, blobs))
	vrt.Cover("done")
}

func VK14aMemory2() { vClients(2, 2+vrt.Tier()) }
func VK14aMemory3() { vClients(3, 1+vrt.Tier()) }
