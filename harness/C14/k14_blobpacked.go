package blobpacked

// C14 (kernel): concurrent clients of blobpacked (non-file blobs; small/large/meta are
// reference models; blobs start absent, loose, packed or in both stores).

import (
	"fmt"

	"perkeep.org/internal/vmodel"
	"perkeep.org/internal/vrt"
	"perkeep.org/pkg/blob"
)

func VK14fBlobpackedYield2() {
	vrt.Preemptions(1 + vrt.Tier())
	vrt.Schedules(3 + vrt.Tier())
	vmodel.YieldAtBoundaries = true
	vrt.Stub("perkeep.org/pkg/schema.BlobFromReader", vNotSchema)
	small, large, meta := &vmodel.Store{}, &vmodel.Store{}, &vmodel.KV{}
	zipRef := blob.VerifSmallRef(200)
	zip := []byte("PKzipheader.")
	blobs := []vmodel.LinBlob{{Ref: blob.VerifSmallRef(10), Data: "aa"}, {Ref: blob.VerifSmallRef(11), Data: "b"}}
	var have0 uint
	for i := range blobs {
		st := vrt.Choice(4) // absent, loose, packed, both
		if vrt.Tier() == 0 && i == 1 {
			vrt.Assume(st == 0 || st == 2) // quick: the second blob is absent or packed
		}
		if st == 1 || st == 3 {
			small.Put(blobs[i].Ref, []byte(blobs[i].Data))
		}
		if st >= 2 {
			off := len(zip)
			zip = append(zip, blobs[i].Data...)
			zip = append(zip, 'x')
			meta.Set(blobMetaPrefix+blobs[i].Ref.String(), fmt.Sprintf("%d %s %d", len(blobs[i].Data), zipRef, off))
		}
		if st != 0 {
			have0 |= 1 << uint(i)
		}
	}
	large.Put(zipRef, zip)
	s := &storage{small: small, large: large, meta: meta}
	s.init()
	ops := make([]vmodel.LinOp, 2)
	for i := range ops {
		ops[i].Kind = vrt.Choice(vmodel.LinOps)
		ops[i].Blob = vrt.Choice(len(blobs))
		vrt.Assume(i == 0 || ops[i-1].Kind*8+ops[i-1].Blob <= ops[i].Kind*8+ops[i].Blob)
	}
	vrt.RaceDetect(true)
	vrt.PreemptAtLocks(true)
	vmodel.LinClients(s, blobs, ops)
	vrt.PreemptAtLocks(false)
	vrt.Quiesce()
	vmodel.LinCheck(blobs, ops, have0, vmodel.LinFinal(s, blobs))
	vrt.Cover("done")
}
