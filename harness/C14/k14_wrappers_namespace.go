package namespace

// C14 (kernel): concurrent clients of a namespace over a model master store.

import (
	"perkeep.org/internal/vmodel"
	"perkeep.org/internal/vrt"
)

func VK14hNamespaceYield2() {
	vrt.Preemptions(1 + vrt.Tier())
	vrt.Schedules(3 + vrt.Tier())
	vmodel.YieldAtBoundaries = true
	blobs := vmodel.SmallBlobs(2)
	master, inv := &vmodel.Store{}, &vmodel.KV{}
	ns := &nsto{inventory: inv, master: master}
	var have0 uint
	for i := range blobs {
		switch vrt.Choice(3) {
		case 1:
			master.Put(blobs[i].Ref, []byte(blobs[i].Data))
			inv.Set(blobs[i].Ref.String(), string(rune('0'+len(blobs[i].Data))))
			have0 |= 1 << uint(i)
		case 2: // another namespace's blob in the shared master
			master.Put(blobs[i].Ref, []byte(blobs[i].Data))
		}
	}
	ops := make([]vmodel.LinOp, 2)
	for i := range ops {
		ops[i].Kind = vrt.Choice(vmodel.LinOps)
		ops[i].Blob = vrt.Choice(len(blobs))
		vrt.Assume(i == 0 || ops[i-1].Kind*8+ops[i-1].Blob <= ops[i].Kind*8+ops[i].Blob)
	}
	vrt.RaceDetect(true)
	vrt.PreemptAtLocks(true)
	vmodel.LinClients(ns, blobs, ops)
	vrt.PreemptAtLocks(false)
	vrt.Quiesce()
	vmodel.LinCheck(blobs, ops, have0, vmodel.LinFinal(ns, blobs))
	vrt.Cover("done")
}
