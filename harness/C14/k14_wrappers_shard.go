package shard

// C14 (kernel): concurrent clients of a sharded store over two model shards.

import (
	"perkeep.org/internal/vmodel"
	"perkeep.org/internal/vrt"
	"perkeep.org/pkg/blobserver"
)

func VK14hShardYield2() {
	vrt.Preemptions(1 + vrt.Tier())
	vrt.Schedules(3 + vrt.Tier())
	vmodel.YieldAtBoundaries = true
	blobs := vmodel.SmallBlobs(2)
	a, b := &vmodel.Store{}, &vmodel.Store{}
	sto := &shardStorage{shardPrefixes: []string{"a", "b"}, shards: []blobserver.Storage{a, b}}
	var have0 uint
	all := vrt.Bool()
	for i := range blobs {
		if (vrt.Tier() == 0 && all) || (vrt.Tier() > 0 && vrt.Bool()) {
			[]*vmodel.Store{a, b}[sto.shardNum(blobs[i].Ref)].Put(blobs[i].Ref, []byte(blobs[i].Data))
			have0 |= 1 << uint(i)
		}
	}
	ops := make([]vmodel.LinOp, 2)
	for i := range ops {
		ops[i].Kind = vrt.Choice(vmodel.LinOps)
		ops[i].Blob = vrt.Choice(len(blobs))
		vrt.Assume(i == 0 || ops[i-1].Kind*8+ops[i-1].Blob <= ops[i].Kind*8+ops[i].Blob)
	}
	vrt.RaceDetect(true)
	vrt.PreemptAtLocks(true)
	vmodel.LinClients(sto, blobs, ops)
	vrt.PreemptAtLocks(false)
	vrt.Quiesce()
	vmodel.LinCheck(blobs, ops, have0, vmodel.LinFinal(sto, blobs))
	vrt.Cover("done")
}
