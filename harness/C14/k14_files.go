package files

// C14 (kernel): concurrent clients of the file-per-blob store (over the model VFS of
// k03_files.go) see a linearizable, race-free map.

import (
	"os"
	"strings"

	"perkeep.org/internal/vmodel"
	"perkeep.org/internal/vrt"
	"perkeep.org/pkg/blob"
)

func vLinClients(n, sched int, yields bool) {
	vrt.Preemptions(sched)
	vrt.Schedules(3 + vrt.Tier()) // orders explored at points where the running goroutine stops anyway
	vmodel.YieldAtBoundaries = yields
	a, b := vmodel.LinBlob{Ref: blob.VerifSmallRef(1), Data: "a"}, vmodel.LinBlob{Ref: blob.VerifSmallRef(2), Data: "bb"}
	blobs := []vmodel.LinBlob{a, b}
	ds := NewStorage(newVFS(), "/root")
	var have0 uint
	all := vrt.Bool()
	for i := range blobs {
		// initial contents: nothing or everything (quick), any subset (thorough)
		if (vrt.Tier() == 0 && all) || (vrt.Tier() > 0 && vrt.Bool()) {
			op := vmodel.LinOp{Kind: vmodel.LinReceive, Blob: i}
			vmodel.LinRun(ds, blobs, &op)
			vrt.Assert(op.Err == nil, "setup receive succeeds")
			have0 |= 1 << uint(i)
		}
	}
	ops := make([]vmodel.LinOp, n)
	for i := range ops {
		ops[i].Kind = vrt.Choice(vmodel.LinOps)
		ops[i].Blob = vrt.Choice(len(blobs))
		vrt.Assume(i == 0 || ops[i-1].Kind*8+ops[i-1].Blob <= ops[i].Kind*8+ops[i].Blob)
	}
	vrt.RaceDetect(true)
	vrt.PreemptAtLocks(true)
	vmodel.LinClients(ds, blobs, ops)
	vrt.PreemptAtLocks(false)
	vmodel.LinCheck(blobs, ops, have0, vmodel.LinFinal(ds, blobs))
	vrt.Cover("done")
}


// ---- the store behind the real osFS removal functions ----

// vOSFS is the model VFS with Remove / RemoveDir routed through the real osFS methods; the
// OS primitive below them (robustio.RemoveAll = os.RemoveAll with retries) is modelled:
// it removes path and everything below it.
type vOSFS struct{ *vVFS }

func (o vOSFS) Remove(path string) error    { return osFS{}.Remove(path) }
func (o vOSFS) RemoveDir(path string) error { return osFS{}.RemoveDir(path) }

func (v *vVFS) removeAll(path string) error {
	if err := v.step("removeall"); err != nil {
		return err
	}
	under := func(p string) bool { return p == path || strings.HasPrefix(p, path+"/") }
	var nodes []*vNode
	for _, n := range v.nodes {
		if !under(n.path) {
			nodes = append(nodes, n)
		}
	}
	v.nodes = nodes
	var dirs []string
	for _, d := range v.dirs {
		if !under(d) {
			dirs = append(dirs, d)
		}
	}
	v.dirs = dirs
	return nil
}

// removeOne models os.Remove: a file, or a directory that is empty.
func (v *vVFS) removeOne(path string) error {
	if err := v.step("osremove"); err != nil {
		return err
	}
	for i, n := range v.nodes {
		if n.path == path {
			v.nodes = append(v.nodes[:i], v.nodes[i+1:]...)
			return nil
		}
	}
	for _, n := range v.nodes {
		if strings.HasPrefix(n.path, path+"/") {
			return vmodel.ErrFault // directory not empty
		}
	}
	found := false
	var dirs []string
	for _, d := range v.dirs {
		if strings.HasPrefix(d, path+"/") {
			return vmodel.ErrFault // directory not empty
		}
		if d == path {
			found = true
			continue
		}
		dirs = append(dirs, d)
	}
	if !found {
		return os.ErrNotExist
	}
	v.dirs = dirs
	return nil
}

// K14c (queue): a store rooted in a queue directory, where enumeration schedules the removal of
// empty shard directories in the background. One blob may have been stored and removed before
// (leaving empty directories); then the clients run, the background work drains, and the final
// contents must still be explained.
func vQueueClients(n, sched int, yields bool) {
	vrt.Preemptions(sched)
	vrt.Schedules(3 + vrt.Tier()) // orders explored at points where the running goroutine stops anyway
	vmodel.YieldAtBoundaries = yields
	a, b := vmodel.LinBlob{Ref: blob.VerifSmallRef(1), Data: "a"}, vmodel.LinBlob{Ref: blob.VerifSmallRef(2), Data: "bb"}
	blobs := []vmodel.LinBlob{a, b}
	vfs := newVFS()
	vrt.Stub("perkeep.org/thirdparty/go/robustio.RemoveAll", func(path string) error { return vfs.removeAll(path) })
	vrt.Stub("os.Remove", func(path string) error { return vfs.removeOne(path) })
	ds := NewStorage(vOSFS{vfs}, "/queue-x")
	var have0 uint
	for i := range blobs {
		if vrt.Tier() == 0 && i > 0 {
			break // quick: only the first blob has a history
		}
		switch vrt.Choice(3) {
		case 1:
			op := vmodel.LinOp{Kind: vmodel.LinReceive, Blob: i}
			vmodel.LinRun(ds, blobs, &op)
			vrt.Assert(op.Err == nil, "setup receive succeeds")
			have0 |= 1 << uint(i)
		case 2: // stored and removed again: its directories stay behind, empty
			op := vmodel.LinOp{Kind: vmodel.LinReceive, Blob: i}
			vmodel.LinRun(ds, blobs, &op)
			op2 := vmodel.LinOp{Kind: vmodel.LinRemove, Blob: i}
			vmodel.LinRun(ds, blobs, &op2)
			vrt.Assert(op.Err == nil && op2.Err == nil, "setup receive and remove succeed")
		}
	}
	ops := make([]vmodel.LinOp, n)
	for i := range ops {
		ops[i].Kind = vrt.Choice(vmodel.LinOps)
		ops[i].Blob = vrt.Choice(len(blobs))
		vrt.Assume(i == 0 || ops[i-1].Kind*8+ops[i-1].Blob <= ops[i].Kind*8+ops[i].Blob)
	}
	if vrt.Tier() == 0 {
		// quick: the subject is the background directory clean-up that enumerations start
		enum := false
		for i := range ops {
			enum = enum || ops[i].Kind == vmodel.LinEnumerate
			vrt.Assume(ops[i].Blob == 0) // the blob with a history
		}
		vrt.Assume(enum)
	}
	vrt.RaceDetect(true)
	vrt.PreemptAtLocks(true)
	vmodel.LinClients(ds, blobs, ops)
	vrt.PreemptAtLocks(false)
	vrt.Quiesce()
	vmodel.LinCheck(blobs, ops, have0, vmodel.LinFinal(ds, blobs))
	vrt.Cover("done")
}

func VK14cFiles2()           { vLinClients(2, 1+vrt.Tier(), false) }
func VK14cFilesYield2()      { vLinClients(2, 1+vrt.Tier(), true) }
func VK14cFiles3()           { vLinClients(3, 1, false) }
func VK14cFilesQueue2()      { vQueueClients(2, 1+vrt.Tier(), false) }
func VK14cFilesQueueYield2() { vQueueClients(2, 1+vrt.Tier(), true) }
