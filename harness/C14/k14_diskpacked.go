package diskpacked

// C14 (kernel): concurrent clients of the packed disk store (over the byte-array disk model
// of k03_diskpacked.go) see a linearizable, race-free map.

import (
	"perkeep.org/internal/vmodel"
	"perkeep.org/internal/vrt"
)

func vLinClients(n, sched int, yields bool, max int64) {
	vrt.Preemptions(sched)
	vrt.Schedules(3 + vrt.Tier()) // orders explored at points where the running goroutine stops anyway
	vmodel.YieldAtBoundaries = yields
	vNoPunch = vrt.Tier() == 0
	vInstall()
	a, b := vmodel.LinBlob{Ref: vB0, Data: "a"}, vmodel.LinBlob{Ref: vB1, Data: "bb"}
	if b.Ref.Less(a.Ref) {
		a, b = b, a
	}
	blobs := []vmodel.LinBlob{a, b}
	s := vOpen(&vmodel.KV{}, max)
	var have0 uint
	all := vrt.Bool()
	for i := range blobs {
		// initial contents: nothing or everything (quick), any subset (thorough)
		if (vrt.Tier() == 0 && all) || (vrt.Tier() > 0 && vrt.Bool()) {
			op := vmodel.LinOp{Kind: vmodel.LinReceive, Blob: i}
			vmodel.LinRun(s, blobs, &op)
			vrt.Assert(op.Err == nil, "setup receive succeeds")
			have0 |= 1 << uint(i)
		}
	}
	ops := make([]vmodel.LinOp, n)
	for i := range ops {
		ops[i].Kind = vrt.Choice(vmodel.LinOps)
		ops[i].Blob = vrt.Choice(len(blobs))
		// clients are interchangeable: only ascending (kind, blob) sequences are explored
		vrt.Assume(i == 0 || ops[i-1].Kind*8+ops[i-1].Blob <= ops[i].Kind*8+ops[i].Blob)
	}
	vrt.RaceDetect(true)
	vrt.PreemptAtLocks(true)
	vmodel.LinClients(s, blobs, ops)
	vrt.PreemptAtLocks(false)
	vmodel.LinCheck(blobs, ops, have0, vmodel.LinFinal(s, blobs))
	vrt.Cover("done")
}

// every append rolls over to a new pack file (fds grows while readers run)

// Preemption points: lock acquisitions and go statements, plus (Yield entries) every file-system
// and index call. Quick: one preemption per path; thorough: two. With max=40 every append rolls
// over to a new pack file, so that s.fds grows while readers run.
func VK14bDiskpacked2()              { vLinClients(2, 1+vrt.Tier(), false, 1<<20) }
func VK14bDiskpackedRollover2()      { vLinClients(2, 1+vrt.Tier(), false, 40) }
func VK14bDiskpackedYield2()         { vLinClients(2, 1+vrt.Tier(), true, 1<<20) }
func VK14bDiskpackedRolloverYield2() { vLinClients(2, 1+vrt.Tier(), true, 40) }
func VK14bDiskpacked3()              { vLinClients(3, 1, false, 1<<20) }
