package diskpacked

// C14 (kernel): concurrent clients of the packed disk store (over the byte-array disk model
// of k03_diskpacked.go) see a linearizable, race-free map.

import (
	"perkeep.org/internal/vmodel"
	"perkeep.org/internal/vrt"
)

func vLinClients(n, sched int, max int64) {
	vrt.Schedules(sched)
	vInstall()
	a, b := vmodel.LinBlob{Ref: vB0, Data: "a"}, vmodel.LinBlob{Ref: vB1, Data: "bb"}
	if b.Ref.Less(a.Ref) {
		a, b = b, a
	}
	blobs := []vmodel.LinBlob{a, b}
	s := vOpen(&vmodel.KV{}, max)
	var have0 uint
	for i := range blobs {
		if vrt.Bool() {
			op := vmodel.LinOp{Kind: vmodel.LinReceive, Blob: i}
			vmodel.LinRun(s, blobs, &op)
			vrt.Assert(op.Err == nil, "setup receive succeeds")
			have0 |= 1 << uint(i)
		}
	}
	ops := make([]vmodel.LinOp, n)
	for i := range ops {
		ops[i].Kind = vrt.Choice(vmodel.LinOps)
		ops[i].Blob = vrt.Choice(len(blobs))
	}
	vrt.RaceDetect(true)
	vrt.PreemptAtLocks(true)
	vmodel.LinClients(s, blobs, ops)
	vrt.PreemptAtLocks(false)
	vmodel.LinCheck(blobs, ops, have0, vmodel.LinFinal(s, blobs))
	vrt.Cover("done")
}

// every append rolls over to a new pack file (fds grows while readers run)
func VK14bDiskpacked2()         { vLinClients(2, 6, 1<<20) }
func VK14bDiskpackedRollover2() { vLinClients(2, 6, 40) }
func VK14bDiskpacked3()         { vLinClients(3, 6, 1<<20) }
