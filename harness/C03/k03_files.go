package files

// Model VFS with durability and fault/crash injection, and the harnesses of
// C03 (crash at any VFS call) and C13 (one failing VFS call) for the file-per-blob store.

import (
	"context"
	"errors"
	"io"
	"os"
	"strings"
	"time"

	"perkeep.org/internal/vmodel"
	"perkeep.org/internal/vrt"
	"perkeep.org/pkg/blob"
)

type vNode struct {
	path   string
	data   []byte
	synced int
}

type vCrash struct{}

type vVFS struct {
	nodes   []*vNode
	dirs    []string
	calls   int
	failAt  int // index of the VFS/file call that returns an injected error (-1: none)
	crashAt int // index of the VFS/file call at which the process dies (-1: none)
	tmpSeq  int
	log     []string
	crashed bool // the process is dead: nothing reaches the disk any more
}

func newVFS() *vVFS { return &vVFS{failAt: -1, crashAt: -1} }

func (v *vVFS) step(op string) error {
	vmodel.Boundary() // a file-system call is a lower-layer boundary
	if v.crashed {
		// deferred clean-up code still runs in the harness (a panic models the crash), but the
		// process is dead: its calls have no effect
		return vmodel.ErrFault
	}
	k := v.calls
	v.calls++
	v.log = append(v.log, op)
	if k == v.crashAt {
		v.crashed = true
		panic(vCrash{})
	}
	if k == v.failAt {
		return vmodel.ErrFault
	}
	return nil
}

func (v *vVFS) find(path string) *vNode {
	for _, n := range v.nodes {
		if n.path == path {
			return n
		}
	}
	return nil
}

func (v *vVFS) isDir(path string) bool {
	for _, d := range v.dirs {
		if d == path || strings.HasPrefix(d, path+"/") {
			return true
		}
	}
	for _, n := range v.nodes {
		if strings.HasPrefix(n.path, path+"/") {
			return true
		}
	}
	return false
}

type vInfo struct {
	name string
	size int64
	dir  bool
}

func (i vInfo) Name() string { return i.name }
func (i vInfo) Size() int64  { return i.size }
func (i vInfo) Mode() os.FileMode {
	if i.dir {
		return os.ModeDir | 0700
	}
	return 0600
}
func (i vInfo) ModTime() time.Time { return time.Time{} }
func (i vInfo) IsDir() bool        { return i.dir }
func (i vInfo) Sys() any           { return nil }

func (v *vVFS) Remove(path string) error {
	if err := v.step("remove"); err != nil {
		return err
	}
	for i, n := range v.nodes {
		if n.path == path {
			v.nodes = append(v.nodes[:i], v.nodes[i+1:]...)
			return nil
		}
	}
	return os.ErrNotExist
}

func (v *vVFS) RemoveDir(path string) error { return v.step("rmdir") }

func (v *vVFS) Stat(path string) (os.FileInfo, error) {
	if err := v.step("stat"); err != nil {
		return nil, err
	}
	return v.stat(path)
}

func (v *vVFS) stat(path string) (os.FileInfo, error) {
	if n := v.find(path); n != nil {
		return vInfo{name: path, size: int64(len(n.data))}, nil
	}
	if v.isDir(path) {
		return vInfo{name: path, dir: true}, nil
	}
	return nil, os.ErrNotExist
}

func (v *vVFS) Lstat(path string) (os.FileInfo, error) {
	if err := v.step("lstat"); err != nil {
		return nil, err
	}
	return v.stat(path)
}

type vRFile struct {
	data []byte
	pos  int64
}

func (f *vRFile) Read(p []byte) (int, error) {
	if f.pos >= int64(len(f.data)) {
		return 0, io.EOF
	}
	n := copy(p, f.data[f.pos:])
	f.pos += int64(n)
	return n, nil
}

func (f *vRFile) Seek(off int64, whence int) (int64, error) {
	if whence != io.SeekStart || off < 0 {
		return 0, errors.New("vRFile: unsupported seek")
	}
	f.pos = off
	return off, nil
}

func (f *vRFile) Close() error { return nil }

func (v *vVFS) Open(path string) (ReadableFile, error) {
	if err := v.step("open"); err != nil {
		return nil, err
	}
	n := v.find(path)
	if n == nil {
		return nil, os.ErrNotExist
	}
	return &vRFile{data: n.data}, nil
}

func (v *vVFS) MkdirAll(path string, perm os.FileMode) error {
	if err := v.step("mkdirall"); err != nil {
		return err
	}
	v.dirs = append(v.dirs, path)
	return nil
}

func (v *vVFS) Rename(oldname, newname string) error {
	if err := v.step("rename"); err != nil {
		return err
	}
	n := v.find(oldname)
	if n == nil {
		return os.ErrNotExist
	}
	for i, o := range v.nodes {
		if o.path == newname {
			v.nodes = append(v.nodes[:i], v.nodes[i+1:]...)
			break
		}
	}
	n.path = newname
	return nil
}

type vWFile struct {
	v    *vVFS
	n    *vNode
	name string // like (*os.File).Name: the name it was created with
}

func (f *vWFile) Write(p []byte) (int, error) {
	if err := f.v.step("write"); err != nil {
		return 0, err
	}
	f.n.data = append(f.n.data, p...)
	return len(p), nil
}
func (f *vWFile) Close() error { return f.v.step("close") }
func (f *vWFile) Name() string { return f.name }
func (f *vWFile) Sync() error {
	if err := f.v.step("sync"); err != nil {
		return err
	}
	f.n.synced = len(f.n.data)
	return nil
}

func (v *vVFS) TempFile(dir, prefix string) (WritableFile, error) {
	if err := v.step("tempfile"); err != nil {
		return nil, err
	}
	if !v.isDir(dir) {
		return nil, os.ErrNotExist
	}
	v.tmpSeq++
	n := &vNode{path: dir + "/" + prefix + string(rune('0'+v.tmpSeq))}
	v.nodes = append(v.nodes, n)
	return &vWFile{v: v, n: n, name: n.path}, nil
}

func (v *vVFS) ReadDirNames(dir string) ([]string, error) {
	if err := v.step("readdir"); err != nil {
		return nil, err
	}
	var out []string
	add := func(p string) {
		if !strings.HasPrefix(p, dir+"/") {
			return
		}
		rest := p[len(dir)+1:]
		if i := strings.IndexByte(rest, '/'); i >= 0 {
			rest = rest[:i]
		}
		for _, o := range out {
			if o == rest {
				return
			}
		}
		out = append(out, rest)
	}
	for _, d := range v.dirs {
		add(d)
	}
	for _, n := range v.nodes {
		add(n.path)
	}
	return out, nil
}

// afterCrash: what the disk holds after a power loss: un-synced tails are lost to any length.
func (v *vVFS) afterCrash() *vVFS {
	w := newVFS()
	w.dirs = v.dirs
	for _, n := range v.nodes {
		keep := len(n.data)
		if n.synced < len(n.data) {
			keep = n.synced + vrt.Choice(len(n.data)-n.synced+1)
		}
		w.nodes = append(w.nodes, &vNode{path: n.path, data: n.data[:keep], synced: keep})
	}
	return w
}

type vOneByteReader struct {
	data []byte
	pos  int
}

func (r *vOneByteReader) Read(p []byte) (int, error) {
	if r.pos >= len(r.data) {
		return 0, io.EOF
	}
	if len(p) == 0 {
		return 0, nil
	}
	p[0] = r.data[r.pos]
	r.pos++
	return 1, nil
}

func vReadAll(r io.Reader) []byte {
	var out []byte
	buf := make([]byte, 8)
	for i := 0; i < 16; i++ {
		n, err := r.Read(buf)
		out = append(out, buf[:n]...)
		if err != nil || n == 0 {
			break
		}
	}
	return out
}

func vSame(a, b []byte) bool {
	if len(a) != len(b) {
		return false
	}
	ok := true
	for i := range a {
		if a[i] != b[i] {
			ok = false
		}
	}
	return ok
}

func vEnumerate(ds *Storage) ([]blob.SizedRef, error) {
	ch := make(chan blob.SizedRef, 16)
	err := ds.EnumerateBlobs(context.Background(), ch, "", 10)
	var out []blob.SizedRef
	for sb := range ch {
		out = append(out, sb)
	}
	return out, err
}

// checkVisible: whatever the store presents for br is the complete blob.
func vCheckVisible(ds *Storage, br blob.Ref, data []byte, mustExist bool, what string) {
	rc, size, err := ds.Fetch(context.Background(), br)
	if mustExist {
		vrt.Assert(err == nil, what+": acknowledged blob is fetchable")
	}
	if err == nil {
		got := vReadAll(rc)
		vrt.Assert(vSame(got, data), what+": a fetched blob is complete and intact")
		vrt.Assert(int(size) == len(data), what+": fetch reports the true size")
	}
	sbs, eerr := vEnumerate(ds)
	vrt.Assert(eerr == nil, what+": enumerate succeeds")
	for _, sb := range sbs {
		if sb.Ref == br {
			vrt.Assert(int(sb.Size) == len(data), what+": an enumerated blob has its full size")
			vrt.Assert(err == nil, what+": an enumerated blob is fetchable")
		}
	}
	if mustExist {
		found := false
		for _, sb := range sbs {
			if sb.Ref == br {
				found = true
			}
		}
		vrt.Assert(found, what+": acknowledged blob is enumerated")
	}
}

// K03a: crash at any VFS call while receiving; un-synced data optionally lost.
func VK03aFilesCrash() {
	vfs := newVFS()
	ds := NewStorage(vfs, "/root")
	b0, b1 := blob.VerifSmallRef(1), blob.VerifSmallRef(2)
	d0, d1 := vrt.Bytes(2), vrt.Bytes(3)
	_, err := ds.ReceiveBlob(context.Background(), b0, &vOneByteReader{data: d0})
	vrt.Assert(err == nil, "healthy receive succeeds")
	base := vfs.calls
	vfs.crashAt = base + vrt.Choice(14) // any call of the second receive, or none (>= its call count)
	acked := false
	func() {
		defer func() {
			if r := recover(); r != nil {
				if _, ok := r.(vCrash); !ok {
					panic(r)
				}
			}
		}()
		_, err := ds.ReceiveBlob(context.Background(), b1, &vOneByteReader{data: d1})
		acked = err == nil
	}()
	if acked {
		vrt.Cover("acked")
	} else {
		vrt.Cover("crashed")
	}
	disk := vfs.afterCrash()
	ds2 := NewStorage(disk, "/root")
	vCheckVisible(ds2, b0, d0, true, "after crash (earlier blob)")
	vCheckVisible(ds2, b1, d1, acked, "after crash (in-flight blob)")
	// the store keeps working: the torn blob can be received again and is then served
	_, err = ds2.ReceiveBlob(context.Background(), b1, &vOneByteReader{data: d1})
	vrt.Assert(err == nil, "re-receive after restart succeeds")
	vCheckVisible(ds2, b1, d1, true, "after re-receive")
}

// K13b: one failing VFS call fails one operation and nothing else.
func VK13bFilesFault() {
	vfs := newVFS()
	ds := NewStorage(vfs, "/root")
	b0, b1 := blob.VerifSmallRef(1), blob.VerifSmallRef(2)
	d0, d1 := vrt.Bytes(2), vrt.Bytes(3)
	_, err := ds.ReceiveBlob(context.Background(), b0, &vOneByteReader{data: d0})
	vrt.Assert(err == nil, "healthy receive succeeds")
	op := vrt.Choice(4)
	base := vfs.calls
	vfs.failAt = base + vrt.Choice(12)
	switch op {
	case 0:
		_, err = ds.ReceiveBlob(context.Background(), b1, &vOneByteReader{data: d1})
	case 1:
		var rc io.ReadCloser
		rc, _, err = ds.Fetch(context.Background(), b0)
		if err == nil {
			vrt.Assert(vSame(vReadAll(rc), d0), "fetch under fault returns the blob or an error")
		}
	case 2:
		err = ds.StatBlobs(context.Background(), []blob.Ref{b0, b1}, func(sb blob.SizedRef) error {
			vrt.Assert(sb.Ref == b0 && sb.Size == 2, "stat under fault reports only true facts")
			return nil
		})
	default:
		err = ds.RemoveBlobs(context.Background(), []blob.Ref{b1})
	}
	failed := vfs.failAt < vfs.calls
	if failed && op != 0 {
		vrt.Assert(err != nil, "a failing lower-layer call makes the operation return an error")
	}
	if !failed {
		vrt.Assert(err == nil, "no fault, no error")
	}
	vfs.failAt = -1
	// nothing else is affected
	vCheckVisible(ds, b0, d0, true, "after fault (earlier blob)")
	vCheckVisible(ds, b1, d1, op == 0 && err == nil, "after fault (in-flight blob)")
	for _, n := range vfs.nodes {
		vrt.Mech(!strings.Contains(n.path, ".tmp"), "no temp file is left behind by a failed receive")
	}
	_, err = ds.ReceiveBlob(context.Background(), b1, &vOneByteReader{data: d1})
	vrt.Assert(err == nil, "healthy receive after the fault succeeds")
	vCheckVisible(ds, b1, d1, true, "after healthy re-receive")
}
