package diskpacked

// Disk model for the packed disk store (pack files as byte arrays behind *os.File)
// and the harnesses of C03 (crash inside an append / a removal), C13 (one failing
// file or index call, also coinciding with pack roll-over) and C01 (one-step map
// behaviour incl. duplicate receive).

import (
	"bytes"
	"context"
	"errors"
	"io"
	"os"
	"strings"
	"time"

	"perkeep.org/internal/vmodel"
	"perkeep.org/internal/vrt"
	"perkeep.org/pkg/blob"
	"perkeep.org/pkg/blobserver"
	"perkeep.org/pkg/sorted"
)

type vFile struct {
	name string
	data []byte
}

type vHandle struct {
	f      *os.File
	file   *vFile
	pos    int64
	closed bool
}

type vDisk struct {
	files   []*vFile
	handles []*vHandle
	calls   int
	failAt  int // index of the file-level call that fails (-1: none)
	log     []string
	// journal (when journalOn): every byte-changing write in program order
	journalOn bool
	journal   []vWrite
}

type vWrite struct {
	file     *vFile
	off      int64
	old, new []byte
}

func (d *vDisk) note(file *vFile, off int64, p []byte) {
	if !d.journalOn {
		return
	}
	w := vWrite{file: file, off: off, new: append([]byte(nil), p...)}
	for i := range p {
		if int(off)+i < len(file.data) {
			w.old = append(w.old, file.data[int(off)+i])
		}
	}
	d.journal = append(d.journal, w)
}

var vD *vDisk

// vNoPunch fixes the portable zero-fill removal path (harnesses that do not vary it).
var vNoPunch bool

type vInfo struct {
	name string
	size int64
	dir  bool
}

func (i vInfo) Name() string { return i.name }
func (i vInfo) Size() int64  { return i.size }
func (i vInfo) Mode() os.FileMode {
	if i.dir {
		return os.ModeDir | 0700
	}
	return 0600
}
func (i vInfo) ModTime() time.Time { return time.Time{} }
func (i vInfo) IsDir() bool        { return i.dir }
func (i vInfo) Sys() any           { return nil }

type vNopCloser struct{}

func (vNopCloser) Close() error { return nil }

func (d *vDisk) step(op string) error {
	vmodel.Boundary() // a file-system call is a lower-layer boundary
	k := d.calls
	d.calls++
	d.log = append(d.log, op)
	if k == d.failAt {
		return vmodel.ErrFault
	}
	return nil
}

func (d *vDisk) find(name string) *vFile {
	for _, f := range d.files {
		if f.name == name {
			return f
		}
	}
	return nil
}

func (d *vDisk) handle(f *os.File) *vHandle {
	for _, h := range d.handles {
		if h.f == f {
			return h
		}
	}
	panic("vDisk: unknown *os.File")
}

func (d *vDisk) open(file *vFile) *os.File {
	f := new(os.File)
	d.handles = append(d.handles, &vHandle{f: f, file: file})
	return f
}

// vInstall replaces the os-level functions diskpacked uses by the disk model.
func vInstall() *vDisk {
	d := &vDisk{failAt: -1}
	vD = d
	// hole punching: either unsupported (portable zero-fill path) or the Linux contract:
	// fallocate(PUNCH_HOLE) zeroes [off, off+size) and fails with EINVAL when size <= 0
	punchHole = nil
	if (vNoPunch == false) && vrt.Choice(2) == 1 {
		punchHole = func(f *os.File, off, size int64) error {
			if size <= 0 {
				return errors.New("invalid argument")
			}
			_, err := f.WriteAt(make([]byte, size), off)
			return err
		}
	}
	vrt.Stub("os.Open", func(name string) (*os.File, error) {
		if err := d.step("open"); err != nil {
			return nil, err
		}
		file := d.find(name)
		if file == nil {
			return nil, os.ErrNotExist
		}
		return d.open(file), nil
	})
	vrt.Stub("os.OpenFile", func(name string, flag int, perm os.FileMode) (*os.File, error) {
		if err := d.step("openfile"); err != nil {
			return nil, err
		}
		file := d.find(name)
		if file == nil {
			if flag&os.O_CREATE == 0 {
				return nil, os.ErrNotExist
			}
			file = &vFile{name: name}
			d.files = append(d.files, file)
		}
		return d.open(file), nil
	})
	vrt.Stub("os.Stat", func(name string) (os.FileInfo, error) {
		if file := d.find(name); file != nil {
			return vInfo{name: name, size: int64(len(file.data))}, nil
		}
		if name == "/r" {
			return vInfo{name: name, dir: true}, nil
		}
		return nil, os.ErrNotExist
	})
	vrt.Stub("go4.org/lock.Lock", func(name string) (io.Closer, error) { return vNopCloser{}, nil })
	vrt.Stub("(*os.File).Stat", func(f *os.File) (os.FileInfo, error) {
		h := d.handle(f)
		return vInfo{name: h.file.name, size: int64(len(h.file.data))}, nil
	})
	vrt.Stub("(*os.File).Name", func(f *os.File) string { return d.handle(f).file.name })
	vrt.Stub("(*os.File).Close", func(f *os.File) error {
		d.handle(f).closed = true
		return nil
	})
	vrt.Stub("(*os.File).Sync", func(f *os.File) error { return d.step("sync") })
	vrt.Stub("(*os.File).Write", func(f *os.File, p []byte) (int, error) {
		if err := d.step("write"); err != nil {
			return 0, err
		}
		h := d.handle(f)
		d.note(h.file, h.pos, p)
		end := h.pos + int64(len(p))
		for int64(len(h.file.data)) < end {
			h.file.data = append(h.file.data, 0)
		}
		copy(h.file.data[h.pos:], p)
		h.pos = end
		return len(p), nil
	})
	vrt.Stub("(*os.File).ReadFrom", func(f *os.File, r io.Reader) (int64, error) {
		// io.Copy's fast path: same effect as a read/Write loop
		var total int64
		buf := make([]byte, 16)
		for {
			n, rerr := r.Read(buf)
			if n > 0 {
				if _, werr := f.Write(buf[:n]); werr != nil {
					return total, werr
				}
				total += int64(n)
			}
			if rerr == io.EOF {
				return total, nil
			}
			if rerr != nil {
				return total, rerr
			}
		}
	})
	vrt.Stub("(*os.File).WriteAt", func(f *os.File, p []byte, off int64) (int, error) {
		if err := d.step("writeat"); err != nil {
			return 0, err
		}
		h := d.handle(f)
		d.note(h.file, off, p)
		end := off + int64(len(p))
		for int64(len(h.file.data)) < end {
			h.file.data = append(h.file.data, 0)
		}
		copy(h.file.data[off:], p)
		return len(p), nil
	})
	vrt.Stub("(*os.File).Read", func(f *os.File, p []byte) (int, error) {
		h := d.handle(f)
		if h.pos >= int64(len(h.file.data)) {
			return 0, io.EOF
		}
		n := copy(p, h.file.data[h.pos:])
		h.pos += int64(n)
		return n, nil
	})
	vrt.Stub("(*os.File).ReadAt", func(f *os.File, p []byte, off int64) (int, error) {
		h := d.handle(f)
		if off < 0 {
			return 0, errors.New("negative offset")
		}
		if off >= int64(len(h.file.data)) {
			return 0, io.EOF
		}
		n := copy(p, h.file.data[off:])
		if n < len(p) {
			return n, io.EOF
		}
		return n, nil
	})
	vrt.Stub("(*os.File).Seek", func(f *os.File, off int64, whence int) (int64, error) {
		if err := d.step("seek"); err != nil {
			return 0, err
		}
		h := d.handle(f)
		switch whence {
		case io.SeekStart:
			h.pos = off
		case io.SeekCurrent:
			h.pos += off
		default:
			h.pos = int64(len(h.file.data)) + off
		}
		return h.pos, nil
	})
	vrt.Stub("(*os.File).Truncate", func(f *os.File, size int64) error {
		if err := d.step("truncate"); err != nil {
			return err
		}
		h := d.handle(f)
		for int64(len(h.file.data)) < size {
			h.file.data = append(h.file.data, 0)
		}
		h.file.data = h.file.data[:size]
		return nil
	})
	vrt.Stub("(*expvar.Map).Add", func(key string, delta int64) {})
	vrt.Stub("(*expvar.Map).Get", func(key string) any { return nil })
	return d
}

func vOpen(kv sorted.KeyValue, maxFileSize int64) *storage {
	s := &storage{root: "/r", index: kv, maxFileSize: maxFileSize}
	err := s.openAllPacks()
	vrt.Assert(err == nil, "opening the pack files succeeds")
	return s
}

func vReadAll(rc io.Reader, max int) []byte {
	buf := make([]byte, max)
	n := 0
	for n < max {
		k, err := rc.Read(buf[n:])
		n += k
		if err != nil || k == 0 {
			break
		}
	}
	return buf[:n]
}

func vSame(a, b []byte) bool {
	if len(a) != len(b) {
		return false
	}
	ok := true
	for i := range a {
		if a[i] != b[i] {
			ok = false
		}
	}
	return ok
}

func vEnumerate(s *storage) []blob.SizedRef {
	ch := make(chan blob.SizedRef, 16)
	err := s.EnumerateBlobs(context.Background(), ch, "", 10)
	vrt.Assert(err == nil, "enumerate succeeds")
	var out []blob.SizedRef
	for sb := range ch {
		out = append(out, sb)
	}
	return out
}

// vCheck: what the store presents for br is the complete blob (or nothing unless mustExist).
func vCheck(s *storage, br blob.Ref, data []byte, mustExist, mustBeAbsent bool, what string) {
	rc, size, err := s.Fetch(context.Background(), br)
	if mustExist {
		vrt.Assert(err == nil, what+": blob is fetchable")
	}
	if mustBeAbsent {
		vrt.Assert(err != nil, what+": blob is absent")
	}
	if err == nil {
		got := vReadAll(rc, 64)
		vrt.Assert(vSame(got, data), what+": a fetched blob is complete and intact")
		vrt.Assert(int(size) == len(data), what+": fetch reports the true size")
	}
	found := false
	for _, sb := range vEnumerate(s) {
		if sb.Ref == br {
			found = true
			vrt.Assert(int(sb.Size) == len(data), what+": an enumerated blob has its full size")
		}
	}
	vrt.Assert(found == (err == nil), what+": enumerate and fetch agree on presence")
	var statN int
	serr := s.StatBlobs(context.Background(), []blob.Ref{br}, func(sb blob.SizedRef) error {
		statN++
		vrt.Assert(int(sb.Size) == len(data), what+": stat reports the true size")
		return nil
	})
	vrt.Assert(serr == nil, what+": stat succeeds")
	vrt.Assert((statN == 1) == (err == nil), what+": stat and fetch agree on presence")
}

// vStream runs StreamBlobs from the start and returns the streamed refs/contents.
func vStream(s *storage) ([]blob.Ref, [][]byte, error) {
	ch := make(chan blobserver.BlobAndToken, 16)
	err := s.StreamBlobs(context.Background(), ch, "")
	var refs []blob.Ref
	var datas [][]byte
	for bt := range ch {
		refs = append(refs, bt.Blob.Ref())
		rc, rerr := bt.Blob.ReadAll(context.Background())
		vrt.Assert(rerr == nil, "a streamed blob is readable")
		datas = append(datas, vReadAll(rc, 64))
	}
	return refs, datas, err
}

// vReindex rebuilds an index from the pack files alone (walkPack + reindexOne, overwrite mode).
func vReindex(npacks int) (*vmodel.KV, error) {
	kv := &vmodel.KV{}
	s := &storage{root: "/r"}
	for i := 0; i < npacks; i++ {
		if err := s.reindexOne(context.Background(), kv, true, i); err != nil {
			return kv, err
		}
	}
	return kv, nil
}

func vPacks() int {
	n := 0
	for _, f := range vD.files {
		if strings.HasSuffix(f.name, ".blobs") {
			n++
		}
	}
	return n
}

var (
	vB0 = blob.VerifSmallRef(1)
	vB1 = blob.VerifSmallRef(2)
	vB2 = blob.VerifSmallRef(3)
)

// K01f/K01h one-step behaviour: receive, duplicate receive, fetch, remove, re-receive.
func VK01DiskpackedMap() {
	vInstall()
	kv := &vmodel.KV{}
	max := int64(1 << 20)
	if vrt.Choice(2) == 1 {
		max = 70 // any maxFileSize: here every second append rolls over to a new pack file
	}
	s := vOpen(kv, max)
	d0, d1 := vrt.Bytes(2), vrt.Bytes(vrt.Choice(3)) // second blob: 0..2 bytes (empty blob included)
	ctx := context.Background()
	sb, err := s.ReceiveBlob(ctx, vB0, bytes.NewReader(d0))
	vrt.Assert(err == nil && sb.Size == 2, "receive acknowledges the true size")
	sb, err = s.ReceiveBlob(ctx, vB1, bytes.NewReader(d1))
	vrt.Assert(err == nil && int(sb.Size) == len(d1), "receive acknowledges the true size (second blob)")
	size0 := 0
	for _, f := range vD.files {
		size0 += len(f.data)
	}
	sb, err = s.ReceiveBlob(ctx, vB0, bytes.NewReader(d0))
	vrt.Assert(err == nil && sb.Size == 2, "receiving a blob again succeeds")
	size1 := 0
	for _, f := range vD.files {
		size1 += len(f.data)
	}
	vrt.Assert(size1 == size0, "receiving a blob again is a no-op on the packs")
	vCheck(s, vB0, d0, true, false, "map")
	vCheck(s, vB1, d1, true, false, "map")
	vCheck(s, vB2, nil, false, true, "map (never received)")
	err = s.RemoveBlobs(ctx, []blob.Ref{vB1})
	vrt.Assert(err == nil, "removing a present blob succeeds")
	vCheck(s, vB1, d1, false, true, "after remove")
	vCheck(s, vB0, d0, true, false, "after remove of another blob")
	_, err = s.ReceiveBlob(ctx, vB1, bytes.NewReader(d1))
	vrt.Assert(err == nil, "receive after remove succeeds")
	vCheck(s, vB1, d1, true, false, "after re-receive")
}

// K03b: the process dies after any prefix of the bytes of the last append reached the disk.
func VK03bAppendCrash() {
	vInstall()
	kv := &vmodel.KV{}
	s := vOpen(kv, 1<<20)
	d0, d1 := vrt.Bytes(2), vrt.Bytes(3)
	ctx := context.Background()
	_, err := s.ReceiveBlob(ctx, vB0, bytes.NewReader(d0))
	vrt.Assert(err == nil, "healthy receive")
	before := len(vD.files[0].data)
	_, err = s.ReceiveBlob(ctx, vB1, bytes.NewReader(d1))
	vrt.Assert(err == nil, "healthy receive")
	full := len(vD.files[0].data)
	// crash state: t bytes of the second record survived; the index row exists only if all did
	t := vrt.Choice(full - before + 1)
	complete := t == full-before
	rowThere := complete && vrt.Choice(2) == 1
	// a torn record whose index row nevertheless exists (index on another device, pack file
	// damaged later): not reachable by a crash under the Sync contract, but exactly the case
	// ReceiveBlob's duplicate rule promises to repair on re-upload
	staleRow := !complete && vrt.Choice(2) == 1
	vD.files[0].data = vD.files[0].data[:before+t]
	if !rowThere && !staleRow {
		kv.Delete(vB1.String())
	}
	if complete {
		vrt.Cover("complete")
	} else {
		vrt.Cover("torn")
	}
	// (i) restart over the surviving files
	vD.handles = nil
	s2 := vOpen(kv, 1<<20)
	vCheck(s2, vB0, d0, true, false, "after crash (acknowledged blob)")
	if !staleRow {
		vCheck(s2, vB1, d1, rowThere, !rowThere, "after crash (in-flight blob)")
	}
	srefs, sdatas, _ := vStream(s2)
	for i := range srefs {
		if srefs[i] == vB0 {
			vrt.Assert(vSame(sdatas[i], d0), "after crash: a streamed blob is complete")
		} else {
			vrt.Assert(srefs[i] == vB1 && vSame(sdatas[i], d1), "after crash: a streamed blob is complete")
		}
	}
	vrt.Assert(len(srefs) >= 1 && srefs[0] == vB0, "after crash: streaming still delivers the acknowledged blob")
	// (ii) the pack files alone rebuild the index to exactly the complete blobs
	kv2, rerr := vReindex(vPacks())
	vrt.Assert(rerr == nil, "reindex of a pack with a torn tail succeeds")
	_, e0 := kv2.Get(vB0.String())
	vrt.Assert(e0 == nil, "reindex finds the acknowledged blob")
	_, e1 := kv2.Get(vB1.String())
	if complete {
		vrt.Assert(e1 == nil, "reindex finds the completely written blob")
	} else {
		vrt.Assert(e1 != nil, "reindex does not index a torn blob")
	}
	// (iii) the torn blob is received again and then served
	_, err = s2.ReceiveBlob(ctx, vB1, bytes.NewReader(d1))
	vrt.Assert(err == nil, "re-receive after the crash succeeds")
	vCheck(s2, vB1, d1, true, false, "after re-receive")
	vCheck(s2, vB0, d0, true, false, "after re-receive (earlier blob)")
}

// K03c: the process dies inside a removal: header rewritten or not, body zeroed up to
// any length, index row deleted or not (each later step only after the earlier one).
func VK03cRemoveCrash() {
	vInstall()
	kv := &vmodel.KV{}
	s := vOpen(kv, 1<<20)
	d0, d1, d2 := vrt.Bytes(2), vrt.Bytes(3), vrt.Bytes(2)
	ctx := context.Background()
	for i, it := range []struct {
		r blob.Ref
		d []byte
	}{{vB0, d0}, {vB1, d1}, {vB2, d2}} {
		_, err := s.ReceiveBlob(ctx, it.r, bytes.NewReader(it.d))
		vrt.Assert(err == nil, "healthy receive")
		_ = i
	}
	orig := append([]byte(nil), vD.files[0].data...)
	rowBefore, _ := kv.Get(vB1.String())
	err := s.RemoveBlobs(ctx, []blob.Ref{vB1})
	vrt.Assert(err == nil, "remove succeeds")
	after := vD.files[0].data
	vrt.Assert(len(after) == len(orig), "removal does not change the pack length")
	// crash state: a prefix (in write order: header first, then body bytes) of the changes survived
	var changed []int
	for i := range orig {
		if orig[i] != after[i] || true {
			changed = append(changed, i)
		}
	}
	stage := vrt.Choice(3) // 0: nothing, 1: header rewritten, 2: header + k body bytes zeroed
	m := blobMeta{}
	m, _ = parseBlobMeta(rowBefore)
	crash := append([]byte(nil), orig...)
	hdrStart := 0
	for i := int(m.offset) - 1; i >= 0; i-- {
		if orig[i] == '[' {
			hdrStart = i
			break
		}
	}
	if stage >= 1 {
		copy(crash[hdrStart:m.offset], after[hdrStart:m.offset])
	}
	rowDeleted := false
	if stage == 2 {
		k := vrt.Choice(int(m.size) + 1)
		copy(crash[m.offset:int(m.offset)+k], after[m.offset:int(m.offset)+k])
		if k == int(m.size) {
			rowDeleted = vrt.Choice(2) == 1
		}
	}
	vD.files[0].data = crash
	if !rowDeleted {
		kv.Set(vB1.String(), rowBefore)
	}
	// no byte of any other record changed
	for i := range orig {
		if i < hdrStart || i >= int(m.offset)+int(m.size) {
			vrt.Assert(after[i] == orig[i], "removal changes no byte of another record")
		}
	}
	// the pack still parses and rebuilds to the other blobs (+ the removed one only if untouched)
	kv2, rerr := vReindex(vPacks())
	vrt.Assert(rerr == nil, "reindex after a crash inside a removal succeeds")
	_, e0 := kv2.Get(vB0.String())
	_, e2 := kv2.Get(vB2.String())
	vrt.Assert(e0 == nil && e2 == nil, "reindex keeps the other blobs")
	_, e1 := kv2.Get(vB1.String())
	if stage >= 1 {
		vrt.Assert(e1 != nil, "reindex does not resurrect a blob whose header was rewritten")
	}
	vD.handles = nil
	s2 := vOpen(kv, 1<<20)
	vCheck(s2, vB0, d0, true, false, "after remove crash (other blob)")
	vCheck(s2, vB2, d2, true, false, "after remove crash (other blob)")
	if stage == 0 {
		vCheck(s2, vB1, d1, true, false, "after remove crash (untouched blob)")
	}
	if rowDeleted {
		vCheck(s2, vB1, d1, false, true, "after completed remove")
	}
}

// K03c': the same crash, without assuming the order of the removal's writes: the disk model
// journals every write of RemoveBlobs in program order; the surviving state is the first j writes
// plus a prefix of the next one (a dead process has no further effects), for every j. A blob that
// a reindex of the surviving packs presents must still be byte-exact.
func VK03cRemoveCrashOrder() {
	d := vInstall()
	kv := &vmodel.KV{}
	s := vOpen(kv, 1<<20)
	d0, d1, d2 := vrt.Bytes(2), vrt.Bytes(3), vrt.Bytes(2)
	ctx := context.Background()
	for _, it := range []struct {
		r blob.Ref
		d []byte
	}{{vB0, d0}, {vB1, d1}, {vB2, d2}} {
		_, err := s.ReceiveBlob(ctx, it.r, bytes.NewReader(it.d))
		vrt.Assert(err == nil, "healthy receive")
	}
	orig := append([]byte(nil), vD.files[0].data...)
	rowBefore, _ := kv.Get(vB1.String())
	d.journalOn = true
	err := s.RemoveBlobs(ctx, []blob.Ref{vB1})
	d.journalOn = false
	vrt.Assert(err == nil, "remove succeeds")
	nj := len(d.journal)
	vrt.Assert(nj >= 1 && nj <= 6, "the removal is a short sequence of writes")
	j := vrt.Choice(nj + 1)
	crash := append([]byte(nil), orig...)
	for i := 0; i < j; i++ {
		w := d.journal[i]
		copy(crash[w.off:], w.new)
	}
	rowDeleted := false
	touched := j > 0
	if j < nj {
		w := d.journal[j]
		if len(w.new) <= 8 { // body writes may be torn at any byte; the header rewrite is one small atomic write
			k := vrt.Choice(len(w.new))
			copy(crash[w.off:int(w.off)+k], w.new[:k])
			touched = touched || k > 0
		}
	} else {
		rowDeleted = vrt.Choice(2) == 1
	}
	vD.files[0].data = crash
	if !rowDeleted {
		kv.Set(vB1.String(), rowBefore)
	}
	// restart on the surviving index
	vD.handles = nil
	s2 := vOpen(kv, 1<<20)
	vCheck(s2, vB0, d0, true, false, "after remove crash, any write order (other blob)")
	vCheck(s2, vB2, d2, true, false, "after remove crash, any write order (other blob)")
	if !touched {
		vCheck(s2, vB1, d1, true, false, "after remove crash, any write order (untouched blob)")
	}
	if rowDeleted {
		vCheck(s2, vB1, d1, false, true, "after completed remove")
	}
	// recovery of the index from the surviving packs
	kv2, rerr := vReindex(vPacks())
	vrt.Assert(rerr == nil, "reindex after a crash inside a removal succeeds")
	vD.handles = nil
	s3 := vOpen(kv2, 1<<20)
	vCheck(s3, vB0, d0, true, false, "after remove crash and reindex (other blob)")
	vCheck(s3, vB2, d2, true, false, "after remove crash and reindex (other blob)")
	vCheck(s3, vB1, d1, false, false, "after remove crash and reindex (the blob being removed, if the packs still present it)")
	if j == nj {
		vrt.Cover("all writes")
	}
}

// K13c: one failing file or index call during a receive, also coinciding with roll-over.
func VK13cAppendFault() {
	d := vInstall()
	kv := &vmodel.KV{}
	small := vrt.Choice(2) == 1
	max := int64(1 << 20)
	if small {
		max = 70 // every append rolls over to a new pack file
	}
	s := vOpen(kv, max)
	d0, d1 := vrt.Bytes(2), vrt.Bytes(3)
	ctx := context.Background()
	_, err := s.ReceiveBlob(ctx, vB0, bytes.NewReader(d0))
	vrt.Assert(err == nil, "healthy receive")
	// the k-th lower-layer call of the next receive fails: file calls and index calls share one counter
	k := vrt.Choice(12)
	base := d.calls
	calls := 0
	d.failAt = base + k
	kvOps := 0
	kv.Fault = func(op string) bool {
		if op == "get" {
			return false
		}
		c := d.calls
		d.calls++
		d.log = append(d.log, "index-"+op)
		kvOps++
		return c == d.failAt
	}
	_, err = s.ReceiveBlob(ctx, vB1, bytes.NewReader(d1))
	failed := d.failAt < d.calls
	_ = calls
	what := "no fault"
	if failed {
		vrt.Cover("fault")
		what = "fault in " + d.log[d.failAt]
		if small {
			what += " (with roll-over)"
		}
		vrt.Assert(err != nil, what+": the receive returns an error")
	} else {
		vrt.Assert(err == nil, "no fault, no error")
	}
	d.failAt = -1
	kv.Fault = nil
	// nothing else is affected, no error persists
	vCheck(s, vB0, d0, true, false, what+": acknowledged blob")
	vCheck(s, vB1, d1, err == nil, false, what+": in-flight blob")
	// streaming works again and shows exactly the acknowledged blobs, intact
	srefs, sdatas, serr := vStream(s)
	vrt.Assert(serr == nil, what+": streaming all blobs succeeds after the failed call")
	// the blob of the failed call may be there (completely) or not; acknowledged ones must be
	if err == nil {
		vrt.Assert(len(srefs) == 2, what+": streaming lists exactly the acknowledged blobs")
	} else {
		vrt.Assert(len(srefs) == 1 || len(srefs) == 2, what+": streaming lists the acknowledged blob and at most the in-flight one")
	}
	for i := range srefs {
		if srefs[i] == vB0 {
			vrt.Assert(vSame(sdatas[i], d0), what+": a streamed blob is intact")
		} else {
			vrt.Assert(srefs[i] == vB1 && vSame(sdatas[i], d1), what+": a streamed blob is intact")
		}
	}
	// recovery right away (before any later append repairs the tail)
	kv1, rerr1 := vReindex(vPacks())
	vrt.Assert(rerr1 == nil, what+": the pack files re-index right after the failed call")
	_, e01 := kv1.Get(vB0.String())
	vrt.Assert(e01 == nil, what+": re-index right after the failed call finds the acknowledged blob")
	if err == nil {
		_, e11 := kv1.Get(vB1.String())
		vrt.Assert(e11 == nil, what+": re-index right after finds the newly acknowledged blob")
	}
	_, err2 := s.ReceiveBlob(ctx, vB1, bytes.NewReader(d1))
	vrt.Assert(err2 == nil, what+": a healthy receive afterwards succeeds")
	vCheck(s, vB1, d1, true, false, what+": after healthy re-receive")
	vCheck(s, vB0, d0, true, false, what+": after healthy re-receive (earlier blob)")
	d2 := vrt.Bytes(2)
	_, err3 := s.ReceiveBlob(ctx, vB2, bytes.NewReader(d2))
	vrt.Assert(err3 == nil, what+": a healthy receive of a new blob afterwards succeeds")
	vCheck(s, vB2, d2, true, false, what+": new blob after the fault")
	// the store can still be rebuilt by its own recovery procedure
	kv2, rerr := vReindex(vPacks())
	vrt.Assert(rerr == nil, what+": the pack files still re-index")
	_, e0 := kv2.Get(vB0.String())
	_, e1 := kv2.Get(vB1.String())
	_, e2 := kv2.Get(vB2.String())
	vrt.Assert(e0 == nil && e1 == nil && e2 == nil, what+": re-index finds every acknowledged blob")
}
