package blob

// C20 harnesses: blobref text, encodings and ordering are mutually consistent.
// All digests are symbolic at full width (20/28/32 bytes).

import (
	"bytes"
	"strings"

	"perkeep.org/internal/vrt"
)

func vSha224() Ref {
	var d sha224Digest
	copy(d[:], vrt.Bytes(28))
	return Ref{d}
}

func vSha1() Ref {
	var d sha1Digest
	copy(d[:], vrt.Bytes(20))
	return Ref{d}
}

func vSha256() Ref {
	var d sha256Digest
	copy(d[:], vrt.Bytes(32))
	return Ref{d}
}

// vRef: a symbolic ref of one of the supported hashes.
func vRef() Ref {
	switch vrt.Choice(3) {
	case 0:
		return vSha1()
	case 1:
		return vSha224()
	}
	return vSha256()
}

// vOther: a ref of an unknown hash obtained the only way the API can make one,
// by parsing name-hex text (name 1..3 chars, 1..4 hex digits; odd counts are
// the legacy form).
func vOther() (Ref, string) {
	nl := 1 + vrt.Choice(3)
	hl := 1 + vrt.Choice(4)
	s := vrt.String(nl) + "-" + vrt.String(hl)
	r, ok := Parse(s)
	vrt.Assume(ok)
	_, isOther := r.digest.(otherDigest)
	vrt.Assume(isOther)
	return r, s
}

// reference hex encoder, independent of the implementation's table
func refHex(b []byte) string {
	out := make([]byte, 0, 2*len(b))
	for _, x := range b {
		for _, n := range [2]byte{x >> 4, x & 15} {
			if n < 10 {
				out = append(out, '0'+n)
			} else {
				out = append(out, 'a'+n-10)
			}
		}
	}
	return string(out)
}

// K20b: Less agrees with byte-wise order of the text forms and is a strict total order.
func VK20bLess() {
	a, b := vRef(), vRef()
	vrt.Assert(a.Less(b) == (a.String() < b.String()), "Less(a,b) == (a.String() < b.String())")
	vrt.Assert(!(a.Less(b) && b.Less(a)), "Less is asymmetric")
	vrt.Assert(a.Less(b) || b.Less(a) || a == b, "Less is total on distinct refs")
	sa, sb := SizedRef{a, vrt.U32()}, SizedRef{b, vrt.U32()}
	vrt.Assert(sa.Less(sb) == (a.String() < b.String()), "SizedRef.Less follows the text order")
}

func VK20bLessTrans() {
	k := vrt.Choice(3)
	mk := func() Ref {
		switch k {
		case 0:
			return vSha1()
		case 1:
			return vSha224()
		}
		return vSha256()
	}
	a, b, c := mk(), mk(), mk()
	vrt.Assume(a.Less(b) && b.Less(c))
	vrt.Assert(a.Less(c), "Less is transitive")
}

// K20a: text round trip for supported refs.
func VK20aParse() {
	r := vRef()
	s := r.String()
	vrt.Assert(s == r.HashName()+"-"+refHex(r.digest.bytes()), "String() is name-hex(digest)")
	vrt.Assert(r.Digest() == refHex(r.digest.bytes()), "Digest() is the lower-case hex digest")
	p, ok := Parse(s)
	vrt.Assert(ok, "Parse(r.String()) ok")
	vrt.Assert(p == r, "Parse(r.String()) == r")
	k, ok2 := ParseKnown(s)
	vrt.Assert(ok2 && k == r, "ParseKnown(r.String()) == r")
	q, ok3 := ParseBytes([]byte(s))
	vrt.Assert(ok3 && q == r, "ParseBytes(r.String()) == r")
	vrt.Assert(ValidRefString(s), "ValidRefString(r.String())")
	vrt.Assert(r.IsSupported(), "supported ref IsSupported")
	m := r.StringMinusOne()
	vrt.Assert(m < s, "StringMinusOne() < String()")
}

// K20a: JSON and binary encodings round trip for supported refs.
func VK20aEncodings() {
	r := vRef()
	j, err := r.MarshalJSON()
	vrt.Assert(err == nil, "MarshalJSON ok")
	vrt.Assert(string(j) == "\""+r.String()+"\"", "MarshalJSON is the quoted text form")
	var r2 Ref
	err = r2.UnmarshalJSON(j)
	vrt.Assert(err == nil && r2 == r, "UnmarshalJSON(MarshalJSON(r)) == r")
	b, err := r.MarshalBinary()
	vrt.Assert(err == nil, "MarshalBinary ok")
	var r3 Ref
	err = r3.UnmarshalBinary(b)
	vrt.Assert(err == nil && r3 == r, "UnmarshalBinary(MarshalBinary(r)) == r")
	var z Ref
	zj, _ := z.MarshalJSON()
	var z2 Ref
	vrt.Assert(z2.UnmarshalJSON(zj) == nil && !z2.Valid(), "zero ref JSON round trip")
}

// K20a': an encoding handed to the caller stays valid while refs keep being formatted (the text
// helpers recycle their scratch buffers through a pool; an encoding must not live in one).
func VK20aEncodingsStable() {
	r, other := vRef(), vRef()
	_ = other.String() // the pool holds a recycled buffer from here on
	b, err := r.MarshalBinary()
	vrt.Assert(err == nil, "MarshalBinary ok")
	j, err := r.MarshalJSON()
	vrt.Assert(err == nil, "MarshalJSON ok")
	txt := r.String()
	// later formatting of other refs
	_ = other.String()
	_ = other.Digest()
	_, _ = other.MarshalBinary()
	_ = other.StringMinusOne()
	var r2, r3 Ref
	vrt.Assert(r3.UnmarshalBinary(b) == nil && r3 == r, "a binary encoding still decodes to its ref after other refs were formatted")
	vrt.Assert(r2.UnmarshalJSON(j) == nil && r2 == r, "a JSON encoding still decodes to its ref after other refs were formatted")
	vrt.Assert(txt == r.String(), "a text form stays what it was after other refs were formatted")
}

// K20a for refs of unknown hash names (incl. the legacy odd-hex form).
func VK20aOther() {
	r, s := vOther()
	vrt.Assert(r.String() == s, "Parse(s).String() == s for unknown-hash refs")
	p, ok := Parse(r.String())
	vrt.Assert(ok && p == r, "Parse(r.String()) == r (unknown hash)")
	q, ok := ParseBytes([]byte(s))
	vrt.Assert(ok && q == r, "ParseBytes == Parse (unknown hash)")
	_, okk := ParseKnown(s)
	vrt.Assert(!okk, "ParseKnown rejects unknown hash names")
	vrt.Assert(!r.IsSupported(), "unknown hash ref is not supported")
	j, _ := r.MarshalJSON()
	var r2 Ref
	vrt.Assert(r2.UnmarshalJSON(j) == nil && r2 == r, "JSON round trip (unknown hash)")
}

func VK20aOtherBinary() {
	r, _ := vOther()
	b, err := r.MarshalBinary()
	vrt.Assert(err == nil, "MarshalBinary ok (unknown hash)")
	var r3 Ref
	err = r3.UnmarshalBinary(b)
	odd := r.digest.(otherDigest).odd
	if odd {
		vrt.Cover("odd")
	}
	vrt.Assert(err == nil && r3 == r, "UnmarshalBinary(MarshalBinary(r)) == r (unknown hash)")
}

// K20c: EqualString / HasPrefix agree with the text form for arbitrary strings.
func VK20cEqualPrefix() {
	r := vRef()
	full := r.String()
	n := vrt.Choice(len(full) + 2) // every length 0..len+1
	s := vrt.String(n)
	vrt.Assert(r.EqualString(s) == (s == full), "EqualString(s) == (s == r.String())")
	want := len(s) >= len(r.HashName())+2 && strings.HasPrefix(full, s)
	vrt.Assert(r.HasPrefix(s) == want, "HasPrefix(s) == (has name- and >=1 digit && prefix of text)")
}

func VK20cEqualPrefixOther() {
	r, full := vOther()
	n := vrt.Choice(len(full) + 2)
	s := vrt.String(n)
	vrt.Assert(r.EqualString(s) == (s == full), "EqualString(s) == (s == r.String()) (unknown hash)")
	want := len(s) >= len(r.HashName())+2 && strings.HasPrefix(full, s)
	vrt.Assert(r.HasPrefix(s) == want, "HasPrefix(s) agrees with text (unknown hash)")
}

func isLowerHex(s string) bool {
	ok := true
	for i := 0; i < len(s); i++ {
		c := s[i]
		if c < '0' {
			ok = false
		}
		if c > '9' && c < 'a' {
			ok = false
		}
		if c > 'f' {
			ok = false
		}
	}
	return ok
}

func isTestOnlyName(s string) bool {
	return strings.HasPrefix(s, "perma-") || strings.HasPrefix(s, "fakeref-") || strings.HasPrefix(s, "testref-")
}

// K20d: only well-formed refs of a supported hash are accepted by ParseKnown.
func VK20dRejectKnown() {
	var name string
	var size int
	switch vrt.Choice(3) {
	case 0:
		name, size = "sha1", 20
	case 1:
		name, size = "sha224", 28
	default:
		name, size = "sha256", 32
	}
	// right length and +-1
	hl := 2*size - 1 + vrt.Choice(3)
	hex := vrt.String(hl)
	s := name + "-" + hex
	r, ok := ParseKnown(s)
	wf := hl == 2*size && isLowerHex(hex)
	vrt.Assert(ok == wf, "ParseKnown accepts name-hex iff hex is lower-case and of the exact length")
	if ok {
		vrt.Assert(r.String() == s, "accepted text is the ref's text form")
	}
	r2, ok2 := Parse(s)
	vrt.Assert(ok2 == wf && r2 == r, "Parse agrees with ParseKnown on supported names")
	r3, ok3 := ParseBytes([]byte(s))
	vrt.Assert(ok3 == wf && r3 == r, "ParseBytes agrees with ParseKnown on supported names")
}

// K20d: arbitrary short strings over the full byte alphabet.
func VK20dRejectShort() {
	n := vrt.Choice(6 + 3*vrt.Tier()) // lengths 0..5 quick, 0..8 thorough
	s := vrt.String(n)
	_, ok := ParseKnown(s)
	if isTestOnlyName(s) {
		// known finding D21: production ParseKnown accepts the test-only hash names
		vrt.Assert(!ok, "ParseKnown rejects refs of the test-only hash names perma/fakeref/testref")
	} else {
		vrt.Assert(!ok, "ParseKnown rejects every string shorter than a supported ref")
	}
	r, ok2 := Parse(s)
	// reference: name-hex with valid name and 1..256 lower-case hex digits
	i := strings.IndexByte(s, '-')
	wf := false
	if i > 0 {
		nm, hx := s[:i], s[i+1:]
		wf = validDigestName(digestName(nm)) && len(hx) >= 1 && isLowerHex(hx) &&
			nm != "sha1" && nm != "sha224" && nm != "sha256"
	}
	vrt.Assert(ok2 == wf, "Parse accepts a short string iff it is validname-lowerhex")
	if ok2 {
		vrt.Assert(r.String() == s, "accepted text is the ref's text form (short)")
	}
	vrt.Assert(ValidRefString(s) == ok2, "ValidRefString == Parse ok")
}

// K20e: the ref computed for bytes is name + "-" + hex(H(bytes)), with H stubbed
// to an arbitrary digest (the hash functions themselves are trusted std).
func VK20eRefFrom() {
	d := vrt.Bytes(28)
	vrt.Stub("(*crypto/internal/fips140/sha256.Digest).Write", func(p []byte) (int, error) { return len(p), nil })
	vrt.Stub("(*crypto/internal/fips140/sha256.Digest).Sum", func(in []byte) []byte { return append(in, d...) })
	content := vrt.Bytes(3)
	r := RefFromBytes(content)
	vrt.Assert(r.String() == "sha224-"+refHex(d), "RefFromBytes = sha224-hex(H(bytes))")
	r2 := RefFromString(string(content))
	vrt.Assert(r2 == r, "RefFromString == RefFromBytes")
	h := NewHash()
	h.Write(content)
	vrt.Assert(r.HashMatches(h), "HashMatches on the ref's own digest")
	vrt.Assert(bytes.Equal(r.digest.bytes(), d), "digest bytes are H(bytes)")
}
