package blob

import "perkeep.org/internal/vrt"

func vSha224() Ref {
	var d sha224Digest
	copy(d[:], vrt.Bytes(28))
	return Ref{d}
}

func vSha1() Ref {
	var d sha1Digest
	copy(d[:], vrt.Bytes(20))
	return Ref{d}
}

func vSha256() Ref {
	var d sha256Digest
	copy(d[:], vrt.Bytes(32))
	return Ref{d}
}

func vRef() Ref {
	switch vrt.Choice(3) {
	case 0:
		return vSha1()
	case 1:
		return vSha224()
	}
	return vSha256()
}

// K20b: Less agrees with byte-wise order of the text forms.
func VK20bLess() {
	a, b := vRef(), vRef()
	vrt.Assert(a.Less(b) == (a.String() < b.String()), "Less(a,b) == (a.String() < b.String())")
}

// K20a: text round trip.
func VK20aParse() {
	r := vRef()
	s := r.String()
	p, ok := Parse(s)
	vrt.Assert(ok, "Parse(r.String()) ok")
	vrt.Assert(p == r, "Parse(r.String()) == r")
	k, ok2 := ParseKnown(s)
	vrt.Assert(ok2 && k == r, "ParseKnown(r.String()) == r")
	q, ok3 := ParseBytes([]byte(s))
	vrt.Assert(ok3 && q == r, "ParseBytes(r.String()) == r")
}
