package encrypt

// C13 (wrapper): one operation of the encrypting store with the k-th call into the ciphertext
// store, the meta store or the index failing (cipher and hash models of k11.go).

import (
	"context"
	"strings"

	"perkeep.org/internal/vmodel"
	"perkeep.org/internal/vrt"
)

func VK13dEncryptFault() {
	vInstall()
	vStandIn = true
	blobs := []vmodel.LinBlob{{Data: "a"}, {Data: "bb"}}
	for i := range blobs {
		blobs[i].Ref = vRefOf([]byte(blobs[i].Data))
	}
	bl, meta, idx := &vmodel.Store{}, &vmodel.Store{}, &vmodel.KV{}
	s := vNew(bl, meta, idx)
	var have uint
	for i := range blobs {
		if vrt.Bool() {
			_, err := s.ReceiveBlob(context.Background(), blobs[i].Ref, strings.NewReader(blobs[i].Data))
			vrt.Assert(err == nil, "setup receive succeeds")
			have |= 1 << uint(i)
		}
	}
	arm, disarm := vmodel.SharedFault(6, []*vmodel.Store{bl, meta}, []*vmodel.KV{idx})
	vmodel.FaultStep(s, blobs, have, arm, disarm)
	vrt.Cover("done")
}
