package namespace

// C13 (wrapper): one namespace operation with the k-th call into the master store / inventory failing.

import (
	"perkeep.org/internal/vmodel"
	"perkeep.org/internal/vrt"
)

func VK13dNamespaceFault() {
	blobs := vmodel.SmallBlobs(2)
	master, inv := &vmodel.Store{}, &vmodel.KV{}
	ns := &nsto{inventory: inv, master: master}
	var have uint
	for i := range blobs {
		switch vrt.Choice(3) {
		case 1: // stored through the namespace
			master.Put(blobs[i].Ref, []byte(blobs[i].Data))
			inv.Set(blobs[i].Ref.String(), vSize(len(blobs[i].Data)))
			have |= 1 << uint(i)
		case 2: // in the master for another namespace only
			master.Put(blobs[i].Ref, []byte(blobs[i].Data))
		}
	}
	arm, disarm := vmodel.SharedFault(5, []*vmodel.Store{master}, []*vmodel.KV{inv})
	vmodel.FaultStep(ns, blobs, have, arm, disarm)
	vrt.Cover("done")
}

func vSize(n int) string { return string(rune('0' + n)) }
