package shard

// C13 (wrapper): one sharded-store operation with the k-th call into any shard failing.

import (
	"perkeep.org/internal/vmodel"
	"perkeep.org/internal/vrt"
	"perkeep.org/pkg/blobserver"
)

func VK13dShardFault() {
	blobs := vmodel.SmallBlobs(2)
	a, b := &vmodel.Store{}, &vmodel.Store{}
	sto := &shardStorage{shardPrefixes: []string{"a", "b"}, shards: []blobserver.Storage{a, b}}
	var have uint
	for i := range blobs {
		if vrt.Bool() {
			[]*vmodel.Store{a, b}[sto.shardNum(blobs[i].Ref)].Put(blobs[i].Ref, []byte(blobs[i].Data))
			have |= 1 << uint(i)
		}
	}
	arm, disarm := vmodel.SharedFault(4, []*vmodel.Store{a, b}, nil)
	vmodel.FaultStep(sto, blobs, have, arm, disarm)
	vrt.Cover("done")
}
