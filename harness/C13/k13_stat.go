package blobserver

// C13 (K13a): a failing lower-layer stat fails that one call and nothing else:
// the call returns an error, fn is not called after an error was returned, and
// later calls on the same (shared) gate still complete.

import (
	"context"

	"go4.org/syncutil"

	"perkeep.org/internal/vmodel"
	"perkeep.org/internal/vrt"
	"perkeep.org/pkg/blob"
)

func VK13aStatHelper() {
	capN := 2 + vrt.Choice(2)
	gate := syncutil.NewGate(capN)
	n := 2 + vrt.Choice(3)
	vrt.Schedules(3)
	var blobs []blob.Ref
	for i := 0; i < n; i++ {
		blobs = append(blobs, blob.VerifSmallRef(byte(10+i)))
	}
	absent := vrt.Choice(n + 1) // which blob does not exist (n: all exist)
	rounds := capN + 1          // enough failing calls to exhaust a leaking gate
	for round := 0; round < rounds; round++ {
		failAt := n // healthy
		if round < rounds-1 {
			failAt = vrt.Choice(n + 1)
		}
		returned := false
		calls := make([]int, n)
		worker := func(br blob.Ref) (blob.SizedRef, error) {
			for i := range blobs {
				if blobs[i] == br {
					if i == failAt {
						return blob.SizedRef{}, vmodel.ErrFault
					}
					if i == absent {
						return blob.SizedRef{}, nil
					}
					return blob.SizedRef{Ref: br, Size: uint32(i + 1)}, nil
				}
			}
			return blob.SizedRef{}, nil
		}
		err := StatBlobsParallelHelper(context.Background(), blobs, func(sb blob.SizedRef) error {
			vrt.Assert(!returned, "fn is not called after the stat call returned")
			for i := range blobs {
				if blobs[i] == sb.Ref {
					calls[i]++
					vrt.Assert(int(sb.Size) == i+1, "stat reports the true size")
				}
			}
			return nil
		}, gate, worker)
		returned = true
		if failAt < n {
			vrt.Assert(err != nil, "a failing lower-layer stat makes the call return an error")
		} else {
			vrt.Assert(err == nil, "a healthy stat call succeeds (no error persists from earlier failures)")
			for i := 0; i < n; i++ {
				if i == absent {
					vrt.Assert(calls[i] == 0, "absent blob not reported")
				} else {
					vrt.Assert(calls[i] == 1, "present blob reported exactly once")
				}
			}
		}
		for i := 0; i < n; i++ {
			vrt.Assert(calls[i] <= 1, "no blob reported twice")
		}
	}
}
