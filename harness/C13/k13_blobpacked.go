package blobpacked

// C13 (wrapper): one blobpacked operation (non-file blobs) with the k-th call into the small
// store, the large store or the meta index failing. Blobs start absent, loose, packed or in
// both stores (the interrupted-pack state).

import (
	"fmt"

	"perkeep.org/internal/vmodel"
	"perkeep.org/internal/vrt"
	"perkeep.org/pkg/blob"
)

func VK13dBlobpackedFault() {
	vrt.Schedules(2)
	vrt.Stub("perkeep.org/pkg/schema.BlobFromReader", vNotSchema)
	small, large, meta := &vmodel.Store{}, &vmodel.Store{}, &vmodel.KV{}
	zipRef := blob.VerifSmallRef(200)
	zip := []byte("PKzipheader.")
	blobs := []vmodel.LinBlob{{Ref: blob.VerifSmallRef(10), Data: "aa"}, {Ref: blob.VerifSmallRef(11), Data: "b"}}
	var have uint
	for i := range blobs {
		st := vrt.Choice(4) // absent, loose, packed, both
		if st == 1 || st == 3 {
			small.Put(blobs[i].Ref, []byte(blobs[i].Data))
		}
		if st >= 2 {
			off := len(zip)
			zip = append(zip, blobs[i].Data...)
			zip = append(zip, 'x')
			meta.Set(blobMetaPrefix+blobs[i].Ref.String(), fmt.Sprintf("%d %s %d", len(blobs[i].Data), zipRef, off))
		}
		if st != 0 {
			have |= 1 << uint(i)
		}
	}
	large.Put(zipRef, zip)
	s := &storage{small: small, large: large, meta: meta}
	s.init()
	arm, disarm := vmodel.SharedFault(6, []*vmodel.Store{small, large}, []*vmodel.KV{meta})
	vmodel.FaultStep(s, blobs, have, arm, disarm)
	vrt.Cover("done")
}
