package proxycache

// C13 (wrapper): one proxy-cache operation with the k-th call into the cache or the origin failing.

import (
	"context"
	"strings"

	"perkeep.org/internal/vmodel"
	"perkeep.org/internal/vrt"
)

func VK13dProxycacheFault() {
	blobs := vmodel.SmallBlobs(2)
	cache, origin := &vmodel.Store{}, &vmodel.Store{}
	sto := New(int64(2*vrt.Choice(2)+1), cache, origin) // budget 1 or 3 bytes
	var have uint
	for i := range blobs {
		switch vrt.Choice(3) {
		case 1:
			origin.Put(blobs[i].Ref, []byte(blobs[i].Data))
			have |= 1 << uint(i)
		case 2: // stored through the proxy: in the origin and (budget permitting) in the cache
			_, err := sto.ReceiveBlob(context.Background(), blobs[i].Ref, strings.NewReader(blobs[i].Data))
			vrt.Assert(err == nil, "setup receive succeeds")
			have |= 1 << uint(i)
		}
	}
	arm, disarm := vmodel.SharedFault(5, []*vmodel.Store{cache, origin}, nil)
	vmodel.FaultStep(sto, blobs, have, arm, disarm)
	vrt.Cover("done")
}
