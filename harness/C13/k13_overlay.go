package overlay

// C13 (wrapper): one overlay operation with the k-th call into lower / upper / tombstone KV failing.

import (
	"perkeep.org/internal/vmodel"
	"perkeep.org/internal/vrt"
)

func VK13dOverlayFault() {
	blobs := vmodel.SmallBlobs(2)
	lower, upper, del := &vmodel.Store{}, &vmodel.Store{}, &vmodel.KV{}
	sto := &overlayStorage{lower: lower, upper: upper, deleted: del}
	var have uint
	for i := range blobs {
		switch vrt.Choice(4) {
		case 1: // in the lower layer
			lower.Put(blobs[i].Ref, []byte(blobs[i].Data))
			have |= 1 << uint(i)
		case 2: // in the upper layer
			upper.Put(blobs[i].Ref, []byte(blobs[i].Data))
			have |= 1 << uint(i)
		case 3: // in the lower layer, deleted through the overlay
			lower.Put(blobs[i].Ref, []byte(blobs[i].Data))
			del.Set(blobs[i].Ref.String(), "1")
		}
	}
	arm, disarm := vmodel.SharedFault(5, []*vmodel.Store{lower, upper}, []*vmodel.KV{del})
	vmodel.FaultStep(sto, blobs, have, arm, disarm)
	vrt.Cover("done")
}
