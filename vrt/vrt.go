// Package vrt is the harness run-time of /verif's symbolic engine (gosym).
//
// Under the engine every function here is an intrinsic: U8() is a fresh
// symbolic byte, Assume adds to the path condition, Assert is a solver query.
// Compiled natively (replay), the same functions read the values of one
// counterexample from the JSON file named by $VRT_TRACE, in creation order, so
// that the harness runs the identical path against the real build.
//
// This file is injected by overlay as perkeep.org/internal/vrt; it is never
// written under /repo.
package vrt

import (
	"encoding/json"
	"fmt"
	"os"
	"runtime"
	"time"
)

type input struct {
	Kind string `json:"kind"`
	Val  uint64 `json:"val"`
	Src  string `json:"src"`
}

var (
	loaded bool
	inputs []input
	pos    int
	// Failed is set by a failing Assert in native mode.
	Failed   []string
	MechFail []string
)

func load() {
	if loaded {
		return
	}
	loaded = true
	p := os.Getenv("VRT_TRACE")
	if p == "" {
		return
	}
	b, err := os.ReadFile(p)
	if err != nil {
		panic(err)
	}
	var t struct {
		Inputs []input `json:"inputs"`
	}
	if err := json.Unmarshal(b, &t); err != nil {
		panic(err)
	}
	for _, i := range t.Inputs {
		if i.Src == "vrt" {
			inputs = append(inputs, i)
		}
	}
}

func next(kind string) uint64 {
	load()
	if pos >= len(inputs) {
		fmt.Println("VRT-TRACE-EXHAUSTED")
		os.Exit(3)
	}
	i := inputs[pos]
	pos++
	if i.Kind != kind {
		fmt.Printf("VRT-TRACE-MISMATCH want %s got %s at %d\n", kind, i.Kind, pos-1)
		os.Exit(3)
	}
	return i.Val
}

func Bool() bool              { return next("sym") != 0 }
func U8() uint8               { return uint8(next("sym")) }
func U16() uint16             { return uint16(next("sym")) }
func U32() uint32             { return uint32(next("sym")) }
func U64() uint64             { return next("sym") }
func I32() int32              { return int32(next("sym")) }
func I64() int64              { return int64(next("sym")) }
func Int() int                { return int(next("sym")) }
func Fault(label string) bool { return next("sym") != 0 }

// Range returns a symbolic int in [lo,hi].
func Range(lo, hi int) int { return int(next("sym")) }

// Choice returns a value in [0,n); the engine forks on it.
func Choice(n int) int { return int(next("choice")) }

func Bytes(n int) []byte {
	b := make([]byte, n)
	for i := range b {
		b[i] = U8()
	}
	return b
}

func String(n int) string { return string(Bytes(n)) }

func Assume(b bool) {
	if !b {
		fmt.Println("VRT-ASSUME-FAILED")
		os.Exit(4)
	}
}

// Assert states the property. A failing assertion is a VIOLATION candidate.
func Assert(b bool, msg string) {
	if !b {
		fmt.Println("VRT-ASSERT-FAILED: " + msg)
		Failed = append(Failed, msg)
		os.Exit(5)
	}
}

// Mech states an implementation-mechanism expectation (never a violation by itself).
func Mech(b bool, msg string) {
	if !b {
		fmt.Println("VRT-MECH-FAILED: " + msg)
		MechFail = append(MechFail, msg)
	}
}

func Cover(label string) {}
func Unwind(n int)       {}
func Schedules(n int)    {}
func NoMerge(b bool)     {}
func ExpectPanic()       {}
func Note(msg string)    {}

// PreemptAtLocks makes every mutex acquisition a scheduling point in the engine.
func PreemptAtLocks(b bool) {}

// RaceDetect switches the engine's happens-before data-race detector on or off (natively: no-op;
// native replays may be run under the real race detector instead).
func RaceDetect(b bool) {}

// Preemptions switches the engine's scheduler to preemption bounding: every lock acquisition
// (with PreemptAtLocks), go statement and Yield is a point where the running goroutine may be
// switched out, at most k times per path; choices at points where it had to stop anyway are free.
func Preemptions(k int) {}

// Yield marks a lower-layer boundary (a file-system or KV call) as a preemption point.
func Yield() { runtime.Gosched() }

// Tick returns a logical timestamp that increases with every executed instruction (natively: the
// monotonic clock); it orders invocation and return events without synchronising anything.
func Tick() int64 { return time.Now().UnixNano() }

// Quiesce waits until all other goroutines have finished or are blocked (natively: a short sleep).
func Quiesce() { time.Sleep(50 * time.Millisecond) }
func Tier() int {
	if os.Getenv("VERIF_TIER") == "thorough" {
		return 1
	}
	return 0
}
func Symbolic() bool               { return false }
func IsConcrete(x int) bool        { return true }
func Concretize(x, lo, hi int) int { return x }

// Stub routes calls of the named function to f inside the engine; natively it
// is not available (harnesses that use it are replayed in the engine only).
func Stub(name string, f any) {}
