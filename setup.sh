#!/bin/sh
# Build the gosym engine offline (go1.26.8 + x/tools v0.50.0 from the module cache).
set -e
cd "$(dirname "$0")/engine"
export GOFLAGS=-mod=mod GOPROXY=off GOSUMDB=off GOTOOLCHAIN=local
mkdir -p ../bin
go1.26.8 build -o ../bin/gosym .
echo "gosym built"
