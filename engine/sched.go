package main

import (
	"fmt"
	"go/types"

	"golang.org/x/tools/go/ssa"
)

// ---------- channels ----------

func (in *Interp) noSpec(what string) {
	if in.specDepth > 0 {
		panic(mergeAbort{what})
	}
}

func (in *Interp) block(g *Goroutine, fr *Frame, msg string, ready func() bool) {
	in.noSpec("block")
	g.blocked = true
	g.ready = ready
	g.waitMsg = msg
	if fr != nil {
		fr.pc-- // retry the instruction when woken
	}
}

type gwait struct {
	recvOn []*ChanV
	send   *sendWait
}


func (in *Interp) waitOf(g *Goroutine) *gwait {
	w := in.gwaits[g]
	if w == nil {
		w = &gwait{}
		in.gwaits[g] = w
	}
	return w
}

func (in *Interp) hasReceiver(ch *ChanV, except *Goroutine) bool {
	for _, g := range in.gs {
		if g == except || !g.blocked || g.done {
			continue
		}
		if w := in.gwaits[g]; w != nil {
			for _, c := range w.recvOn {
				if c == ch {
					return true
				}
			}
		}
	}
	return false
}

func (in *Interp) chanSend(g *Goroutine, fr *Frame, ch *ChanV, v Value) {
	in.noSpec("chan send")
	if ch == nil {
		in.block(g, fr, "send on nil chan", func() bool { return false })
		return
	}
	w := in.waitOf(g)
	if w.send != nil {
		if w.send.done {
			if in.raceActive(g) {
				g.vc.join(w.send.ack)
			}
			w.send = nil
			return
		}
		in.block(g, fr, "chan send", func() bool { return w.send.done || ch.closed })
		return
	}
	if ch.closed {
		in.goPanic("send on closed channel")
	}
	if len(ch.buf) < ch.cap || (ch.cap == 0 && len(ch.buf) == 0 && len(ch.sendq) == 0 && in.hasReceiver(ch, g)) {
		in.raceBufPush(ch, in.raceSend(g, ch))
		ch.buf = append(ch.buf, v)
		return
	}
	sw := &sendWait{g: g, val: v, vc: in.raceSend(g, ch)}
	ch.sendq = append(ch.sendq, sw)
	w.send = sw
	in.block(g, fr, "chan send", func() bool { return sw.done || ch.closed })
}

// chanTryRecv takes a value if one is available.
func (in *Interp) chanTryRecv(ch *ChanV) (Value, bool, bool) {
	in.race.lastRecv, in.race.lastOK = nil, false
	g := in.cur
	if len(ch.buf) > 0 {
		v := ch.buf[0]
		ch.buf = ch.buf[1:]
		in.race.lastRecv = in.raceBufPop(ch)
		in.race.lastOK = true
		if len(ch.sendq) > 0 && len(ch.buf) < ch.cap {
			sw := ch.sendq[0]
			ch.sendq = ch.sendq[1:]
			in.raceBufPush(ch, sw.vc)
			ch.buf = append(ch.buf, sw.val)
			if in.raceActive(g) {
				sw.ack = g.vc.clone()
			}
			sw.done = true
		}
		return v, true, true
	}
	if len(ch.sendq) > 0 {
		sw := ch.sendq[0]
		ch.sendq = ch.sendq[1:]
		in.race.lastRecv, in.race.lastOK = sw.vc, true
		if in.raceActive(g) {
			sw.ack = g.vc.clone()
		}
		sw.done = true
		return sw.val, true, true
	}
	if ch.closed {
		return in.zero(ch.et), false, true
	}
	return nil, false, false
}

func (in *Interp) chanRecv(g *Goroutine, fr *Frame, x *ssa.UnOp, ch *ChanV, commaOk bool) {
	in.noSpec("chan recv")
	if ch == nil {
		in.block(g, fr, "recv on nil chan", func() bool { return false })
		return
	}
	v, ok, got := in.chanTryRecv(ch)
	w := in.waitOf(g)
	if !got {
		w.recvOn = []*ChanV{ch}
		in.block(g, fr, "chan recv", func() bool { return len(ch.buf) > 0 || len(ch.sendq) > 0 || ch.closed })
		return
	}
	w.recvOn = nil
	in.raceRecvDone(g, ch, in.race.lastRecv, !in.race.lastOK)
	if commaOk {
		in.set(fr, x, TupleV{v, in.tt.Bool(ok)})
	} else {
		in.set(fr, x, v)
	}
}

func (in *Interp) chanClose(ch *ChanV) {
	in.noSpec("close")
	if ch == nil {
		in.goPanic("close of nil channel")
	}
	if ch.closed {
		in.goPanic("close of closed channel")
	}
	ch.closed = true
}

func (in *Interp) doSelect(g *Goroutine, fr *Frame, x *ssa.Select) {
	in.noSpec("select")
	type cand struct{ idx int }
	var ready []int
	for i, st := range x.States {
		ch, _ := in.get(fr, st.Chan).(*ChanV)
		if ch == nil {
			continue
		}
		if st.Dir == types.SendOnly {
			if ch.closed || len(ch.buf) < ch.cap || (ch.cap == 0 && len(ch.buf) == 0 && in.hasReceiver(ch, g)) {
				ready = append(ready, i)
			}
		} else {
			if len(ch.buf) > 0 || len(ch.sendq) > 0 || ch.closed {
				ready = append(ready, i)
			}
		}
	}
	// result tuple: (index int, recvOk bool, r_0 T_0, ... r_n-1 T_n-1) for each recv state
	mk := func(idx int, recvOk bool, recvIdx int, recvVal Value) Value {
		t := TupleV{in.tt.Const(64, uint64(int64(idx))), in.tt.Bool(recvOk)}
		for i, st := range x.States {
			if st.Dir == types.RecvOnly {
				et := st.Chan.Type().Underlying().(*types.Chan).Elem()
				if i == recvIdx {
					t = append(t, recvVal)
				} else {
					t = append(t, in.zero(et))
				}
			}
		}
		return t
	}
	w := in.waitOf(g)
	if len(ready) == 0 {
		if !x.Blocking {
			in.set(fr, x, mk(-1, false, -1, nil))
			return
		}
		var chans []*ChanV
		w.recvOn = nil
		for _, st := range x.States {
			ch, _ := in.get(fr, st.Chan).(*ChanV)
			if ch != nil {
				chans = append(chans, ch)
				if st.Dir == types.RecvOnly {
					w.recvOn = append(w.recvOn, ch)
				}
			}
		}
		states := x.States
		in.block(g, fr, "select", func() bool {
			for i, st := range states {
				ch, _ := in.get(fr, st.Chan).(*ChanV)
				_ = i
				if ch == nil {
					continue
				}
				if st.Dir == types.SendOnly {
					if ch.closed || len(ch.buf) < ch.cap || (ch.cap == 0 && len(ch.buf) == 0 && in.hasReceiver(ch, g)) {
						return true
					}
				} else if len(ch.buf) > 0 || len(ch.sendq) > 0 || ch.closed {
					return true
				}
			}
			return false
		})
		return
	}
	w.recvOn = nil
	pick := ready[0]
	if len(ready) > 1 {
		pick = ready[in.schedChoice(len(ready))]
	}
	st := x.States[pick]
	ch := in.get(fr, st.Chan).(*ChanV)
	if st.Dir == types.SendOnly {
		if ch.closed {
			in.goPanic("send on closed channel")
		}
		in.raceBufPush(ch, in.raceSend(g, ch))
		ch.buf = append(ch.buf, in.get(fr, st.Send))
		in.set(fr, x, mk(pick, false, -1, nil))
		return
	}
	v, ok, _ := in.chanTryRecv(ch)
	in.raceRecvDone(g, ch, in.race.lastRecv, !in.race.lastOK)
	in.set(fr, x, mk(pick, ok, pick, v))
}

// schedChoice forks over n scheduling alternatives while the per-path budget lasts.
func (in *Interp) schedChoice(n int) int {
	if n <= 1 {
		return 0
	}
	if in.preemptBound > 0 {
		// preemption-bounded mode: choices where the running goroutine had to stop anyway do not
		// count as preemptions; they are explored while the vrt.Schedules budget lasts (first
		// runnable goroutine afterwards), so that helper goroutines do not multiply the orders
		if in.schedUsed >= in.schedules {
			return 0
		}
		in.schedUsed++
		d := in.decide(n, nil)
		in.inputs = append(in.inputs, inputRec{kind: "choice", val: d, src: "engine", label: "sched"})
		return d
	}
	if in.schedUsed >= in.schedules {
		return 0
	}
	in.schedUsed++
	d := in.decide(n, nil)
	in.inputs = append(in.inputs, inputRec{kind: "choice", val: d, src: "engine", label: "sched"})
	return d
}

// preemptChoice decides whether the running goroutine is switched out although it could continue;
// in preemption-bounded mode only a switch consumes budget (context bounding).
func (in *Interp) preemptChoice() bool {
	if in.preemptBound > 0 {
		if in.preemptUsed >= in.preemptBound {
			return false
		}
		d := in.decide(2, nil)
		in.inputs = append(in.inputs, inputRec{kind: "choice", val: d, src: "engine", label: "preempt"})
		if d == 1 {
			in.preemptUsed++
		}
		return d == 1
	}
	return in.schedChoice(2) == 1
}

// ---------- scheduler ----------

func (in *Interp) runnable(g *Goroutine) bool {
	if g.done {
		return false
	}
	if g.blocked {
		if g.ready != nil && g.ready() {
			g.blocked = false
			g.ready = nil
			return true
		}
		return false
	}
	return true
}

// runAll drives all goroutines until main finishes.
func (in *Interp) runAll(main *Goroutine) {
	cur := main
	for {
		if main.done {
			return
		}
		if cur != nil && cur.yielded {
			cur = nil
		}
		if cur == nil || !in.runnable(cur) {
			var rs []*Goroutine
			for _, g := range in.gs {
				if in.runnable(g) {
					rs = append(rs, g)
				}
			}
			if len(rs) == 0 {
				msg := "deadlock: all goroutines blocked:"
				for _, g := range in.gs {
					if !g.done {
						where := ""
						if f := g.top(); f != nil {
							where = f.fn.String() + " " + in.posOf2(f)
						}
						msg += fmt.Sprintf(" [%s at %s]", g.waitMsg, where)
					}
				}
				in.cur = main
				in.reportViolation("deadlock", msg, false)
				panic(pathEnd{kind: "violation", msg: msg})
			}
			// a goroutine that just yielded lets another one run first
			if len(rs) > 1 {
				for k, g := range rs {
					if g.yielded {
						g.yielded = false
						rs = append(append([]*Goroutine{}, rs[:k]...), rs[k+1:]...)
						rs = append(rs, g)
						break
					}
				}
			}
			cur = rs[0]
			if len(rs) > 1 && (!in.preemptLocks || in.preemptBound > 0) {
				n := len(rs)
				if in.preemptBound > 0 && rs[n-1].justYielded {
					n-- // the goroutine that was just preempted does not continue right away
				}
				cur = rs[in.schedChoice(n)]
			}
		}
		in.cur = cur
		nBefore := len(in.gs)
		for !cur.done && !cur.blocked && !main.done {
			in.stepSafe(cur)
			if len(in.gs) != nBefore {
				// a goroutine was spawned: scheduling point
				nBefore = len(in.gs)
				child := in.gs[len(in.gs)-1]
				// (in preemption-bounded mode the parent runs on to its next lock acquisition or
				// boundary yield, which is a preemption point anyway)
				if in.preemptBound == 0 && in.schedUsed < in.schedules && !child.done {
					if in.preemptChoice() {
						cur = child
						in.cur = cur
					}
				}
			}
		}
		if cur.done && cur != main {
			cur = nil
		}
	}
}

func (in *Interp) posOf2(f *Frame) string {
	if f.block == nil || f.pc >= len(f.block.Instrs) {
		return ""
	}
	return in.prog.Fset.Position(f.block.Instrs[f.pc].Pos()).String()
}
