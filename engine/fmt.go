package main

// A small model of package fmt's formatting for the verbs perkeep uses on the
// encoded paths: %d %v %s %q %x %X %t %c %w %T %02d-style widths.  Strings and
// []byte arguments may be symbolic; integers may be symbolic (decimal digits
// are produced by division at the narrowest width that holds the value's
// feasible range, forking on the digit count).

import (
	"fmt"
	"os"
	"go/types"
	"strconv"
	"strings"
)

func (in *Interp) argsOf(s SliceV) []Value {
	out := make([]Value, s.len)
	for i := 0; i < s.len; i++ {
		out[i] = s.obj.cells[s.off+i]
	}
	return out
}

func (in *Interp) sprintf(g *Goroutine, f *StrV, args SliceV) *StrV {
	s, _ := in.format(g, f, in.argsOf(args))
	return s
}

func (in *Interp) format(g *Goroutine, f *StrV, args []Value) (*StrV, Value) {
	if f.isSym {
		panic(unsupported("symbolic format string"))
	}
	fs := f.conc
	out := concStr("")
	var wrapped Value
	ai := 0
	for i := 0; i < len(fs); {
		j := strings.IndexByte(fs[i:], '%')
		if j < 0 {
			out = in.strConcat(out, concStr(fs[i:]))
			break
		}
		out = in.strConcat(out, concStr(fs[i:i+j]))
		i += j + 1
		if i >= len(fs) {
			out = in.strConcat(out, concStr("%!(NOVERB)"))
			break
		}
		// flags
		zero, minus, plus, sharp := false, false, false, false
		for i < len(fs) && strings.IndexByte("0-+# ", fs[i]) >= 0 {
			switch fs[i] {
			case '0':
				zero = true
			case '-':
				minus = true
			case '+':
				plus = true
			case '#':
				sharp = true
			}
			i++
		}
		width := 0
		for i < len(fs) && fs[i] >= '0' && fs[i] <= '9' {
			width = width*10 + int(fs[i]-'0')
			i++
		}
		prec := -1
		if i < len(fs) && fs[i] == '.' {
			i++
			prec = 0
			for i < len(fs) && fs[i] >= '0' && fs[i] <= '9' {
				prec = prec*10 + int(fs[i]-'0')
				i++
			}
		}
		if i >= len(fs) {
			break
		}
		verb := fs[i]
		i++
		if verb == '%' {
			out = in.strConcat(out, concStr("%"))
			continue
		}
		if ai >= len(args) {
			out = in.strConcat(out, concStr("%!"+string(verb)+"(MISSING)"))
			continue
		}
		arg := args[ai]
		ai++
		if verb == 'w' {
			wrapped = arg
			verb = 'v'
		}
		_ = plus
		_ = sharp
		_ = prec
		piece := in.fmtValue(g, arg, verb)
		if width > piece.Len() {
			pad := width - piece.Len()
			padc := " "
			if zero && !minus {
				padc = "0"
			}
			p := concStr(strings.Repeat(padc, pad))
			if minus {
				piece = in.strConcat(piece, p)
			} else {
				piece = in.strConcat(p, piece)
			}
		}
		out = in.strConcat(out, piece)
	}
	return out, wrapped
}

func (in *Interp) errorf(g *Goroutine, f *StrV, args SliceV) Value {
	msg, wrapped := in.format(g, f, in.argsOf(args))
	if wrapped != nil {
		if wv, ok := wrapped.(IfaceV); ok && wv.typ != nil {
			pkg := in.prog.ImportedPackage("fmt")
			if pkg != nil {
				if t := pkg.Type("wrapError"); t != nil {
					o := in.allocType(t.Type(), "wrapError")
					o.cells[0] = msg
					o.cells[1] = wv
					return IfaceV{typ: types.NewPointer(t.Type()), val: PtrV{obj: o}}
				}
			}
		}
	}
	return in.makeErrorStr(msg)
}

func (in *Interp) sprint(g *Goroutine, args SliceV, ln bool) *StrV {
	out := concStr("")
	vs := in.argsOf(args)
	prevStr := false
	for i, a := range vs {
		isStr := false
		if iv, ok := a.(IfaceV); ok && iv.typ != nil {
			if b, ok := iv.typ.Underlying().(*types.Basic); ok && b.Kind() == types.String {
				isStr = true
			}
		}
		if i > 0 && (ln || (!isStr && !prevStr)) {
			out = in.strConcat(out, concStr(" "))
		}
		out = in.strConcat(out, in.fmtValue(g, a, 'v'))
		prevStr = isStr
	}
	if ln {
		out = in.strConcat(out, concStr("\n"))
	}
	return out
}

func (in *Interp) writeTo(g *Goroutine, w Value, s *StrV) Value {
	iv, _ := w.(IfaceV)
	if iv.typ == nil {
		in.goPanic("Fprintf to nil writer")
	}
	m := in.findMethod(iv.typ, "Write")
	if m == nil {
		panic(unsupported("writer without Write"))
	}
	b := mkBytes(in, s.Terms(in.tt))
	return in.callSync(g, &FuncV{fn: m}, []Value{iv.val, b})
}

const hexdigits = "0123456789abcdef"

func (in *Interp) hexOf(ts []*Term, upper bool) *StrV {
	out := make([]*Term, 0, 2*len(ts))
	tab := hexdigits
	if upper {
		tab = strings.ToUpper(hexdigits)
	}
	nib := func(n *Term) *Term {
		// n is 8-bit with value < 16
		var r *Term
		for k := 15; k >= 0; k-- {
			c := in.tt.Const(8, uint64(tab[k]))
			if r == nil {
				r = c
				continue
			}
			r = in.tt.Ite(in.tt.Eq(n, in.tt.Const(8, uint64(k))), c, r)
		}
		return r
	}
	for _, t := range ts {
		out = append(out, nib(in.tt.Bin(OpLShr, t, in.tt.Const(8, 4))), nib(in.tt.Bin(OpBvAnd, t, in.tt.Const(8, 15))))
	}
	return strFromTerms(out)
}

// fmtValue formats one operand.
func (in *Interp) fmtValue(g *Goroutine, v Value, verb byte) *StrV {
	iv, isIface := v.(IfaceV)
	if !isIface {
		// raw value (e.g. panic argument that is not an interface)
		switch x := v.(type) {
		case *StrV:
			return x
		case *Term:
			if x.w == 0 {
				return in.fmtBool(x)
			}
			return in.fmtInt(x, true, 10, false)
		case nil:
			return concStr("<nil>")
		}
		return concStr(fmt.Sprintf("<%T>", v))
	}
	if iv.typ == nil {
		if verb == 'v' || verb == 's' {
			return concStr("<nil>")
		}
		return concStr("%!" + string(verb) + "(<nil>)")
	}
	if verb == 'T' {
		return concStr(types.TypeString(iv.typ, func(p *types.Package) string { return p.Name() }))
	}
	// Error / String methods
	if verb == 'v' || verb == 's' || verb == 'q' {
		if pt, ok := iv.val.(PtrV); ok && pt.obj == nil {
			if _, isPtr := iv.typ.Underlying().(*types.Pointer); isPtr {
				return concStr("<nil>")
			}
		}
		for _, mn := range []string{"Error", "String"} {
			if m := in.findMethod(iv.typ, mn); m != nil && m.Signature.Params().Len() == 0 && m.Signature.Results().Len() == 1 {
				if b, ok := m.Signature.Results().At(0).Type().Underlying().(*types.Basic); ok && b.Kind() == types.String {
					r := in.callSync(g, &FuncV{fn: m}, []Value{iv.val})
					s := r.(*StrV)
					if verb == 'q' {
						return in.quote(s)
					}
					return s
				}
			}
		}
	}
	switch u := iv.typ.Underlying().(type) {
	case *types.Basic:
		switch {
		case u.Kind() == types.String:
			s := iv.val.(*StrV)
			switch verb {
			case 'q':
				return in.quote(s)
			case 'x':
				return in.hexOf(s.Terms(in.tt), false)
			case 'X':
				return in.hexOf(s.Terms(in.tt), true)
			}
			return s
		case u.Kind() == types.Bool:
			return in.fmtBool(iv.val.(*Term))
		case u.Info()&types.IsInteger != 0:
			t := iv.val.(*Term)
			_, signed, _ := widthOf(iv.typ)
			switch verb {
			case 'x':
				return in.fmtInt(t, signed, 16, false)
			case 'X':
				return in.fmtInt(t, signed, 16, true)
			case 'c':
				if t.IsConst() {
					return concStr(string(rune(t.SVal())))
				}
				return strFromTerms([]*Term{in.tt.Extract(t, 8)})
			case 'q':
				if t.IsConst() {
					return concStr(strconv.QuoteRune(rune(t.SVal())))
				}
			case 'o':
				return in.fmtInt(t, signed, 8, false)
			case 'b':
				return in.fmtInt(t, signed, 2, false)
			}
			return in.fmtInt(t, signed, 10, false)
		case u.Info()&types.IsFloat != 0:
			f := float64(iv.val.(FloatV))
			switch verb {
			case 'f':
				return concStr(strconv.FormatFloat(f, 'f', 6, 64))
			}
			return concStr(strconv.FormatFloat(f, 'g', -1, 64))
		}
	case *types.Slice:
		if b, ok := u.Elem().Underlying().(*types.Basic); ok && b.Kind() == types.Uint8 {
			s := iv.val.(SliceV)
			ts := sliceTerms(s)
			switch verb {
			case 's':
				return strFromTerms(ts)
			case 'q':
				return in.quote(strFromTerms(ts))
			case 'x':
				return in.hexOf(ts, false)
			case 'X':
				return in.hexOf(ts, true)
			}
		}
		s := iv.val.(SliceV)
		out := concStr("[")
		esz := s.esz
		for i := 0; i < s.len; i++ {
			if i > 0 {
				out = in.strConcat(out, concStr(" "))
			}
			var ev Value
			if esz == 1 {
				ev = s.obj.cells[s.off+i]
			} else {
				a := make(AggV, esz)
				copy(a, s.obj.cells[s.off+i*esz:])
				ev = a
			}
			out = in.strConcat(out, in.fmtValue(g, in.boxFor(u.Elem(), ev), verb))
		}
		return in.strConcat(out, concStr("]"))
	case *types.Array:
		if b, ok := u.Elem().Underlying().(*types.Basic); ok && b.Kind() == types.Uint8 && (verb == 'x' || verb == 'X') {
			a := iv.val.(AggV)
			ts := make([]*Term, len(a))
			for i := range a {
				ts[i] = a[i].(*Term)
			}
			return in.hexOf(ts, verb == 'X')
		}
	case *types.Pointer:
		if p, ok := iv.val.(PtrV); ok {
			if p.obj == nil {
				return concStr("<nil>")
			}
			return concStr(fmt.Sprintf("0xc%06x", p.obj.id*64+p.off))
		}
	case *types.Struct:
		a, _ := iv.val.(AggV)
		out := concStr("{")
		off := 0
		for i := 0; i < u.NumFields(); i++ {
			ft := u.Field(i).Type()
			n := in.cellsOf(ft)
			if i > 0 {
				out = in.strConcat(out, concStr(" "))
			}
			var fv Value
			switch ft.Underlying().(type) {
			case *types.Struct, *types.Array:
				fv = AggV(a[off : off+n])
			default:
				if n > 0 {
					fv = a[off]
				}
			}
			out = in.strConcat(out, in.fmtValue(g, in.boxFor(ft, fv), verb))
			off += n
		}
		return in.strConcat(out, concStr("}"))
	case *types.Interface:
		return in.fmtValue(g, iv.val, verb)
	case *types.Map:
		return concStr("map[...]")
	}
	return concStr("<" + iv.typ.String() + ">")
}

func (in *Interp) boxFor(t types.Type, v Value) Value {
	if _, ok := t.Underlying().(*types.Interface); ok {
		return v
	}
	return IfaceV{typ: t, val: v}
}

func (in *Interp) fmtBool(t *Term) *StrV {
	if t.IsConst() {
		if t.cv == 1 {
			return concStr("true")
		}
		return concStr("false")
	}
	if in.concBool(t, "format bool") {
		return concStr("true")
	}
	return concStr("false")
}

func (in *Interp) quote(s *StrV) *StrV {
	if !s.isSym {
		return concStr(strconv.Quote(s.conc))
	}
	// symbolic: assume printable ASCII without quotes/backslashes is NOT sound;
	// keep bytes and mark approximate.
	in.note("%q of symbolic string rendered without escaping")
	return in.strConcat(in.strConcat(concStr("\""), s), concStr("\""))
}

// fmtInt renders an integer term in the given base.
func (in *Interp) fmtInt(t *Term, signed bool, base int, upper bool) *StrV {
	tt := in.tt
	if t.IsConst() {
		var s string
		if signed {
			s = strconv.FormatInt(t.SVal(), base)
		} else {
			s = strconv.FormatUint(t.cv, base)
		}
		if upper {
			s = strings.ToUpper(s)
		}
		return concStr(s)
	}
	neg := false
	mag := t
	if signed {
		isNeg := tt.Cmp(OpSlt, t, tt.Const(t.w, 0))
		if in.concBool(isNeg, "format sign") {
			neg = true
			mag = tt.Neg(t)
		}
	}
	// upper bound: from range analysis when available, else by bisection (unsigned)
	var maxv uint64
	minv := uint64(0)
	if lo, hi, ok := tt.rng(mag, 0); ok && hi >= 0 && (lo >= 0 || signed) {
		// when signed, the sign was decided above, so mag >= 0 on this path
		maxv, minv = uint64(hi), uint64(max(lo, 0))
	} else {
		if in.verbose {
			fmt.Fprintf(os.Stderr, "  fmtInt: no range for %s\n", mag.Dump(8))
		}
		lo, hi := uint64(0), mask(mag.w)
		for lo < hi {
			mid := lo + (hi-lo)/2
			if in.feasible(tt.Cmp(OpUlt, tt.Const(mag.w, mid), mag)) {
				lo = mid + 1
			} else {
				hi = mid
			}
		}
		maxv = hi
	}
	// narrowest width
	w := uint8(8)
	for w < mag.w && maxv > mask(w) {
		w *= 2
	}
	m := tt.Extract(mag, w)
	if w == mag.w {
		m = mag
	}
	// digit count
	maxDigits := 1
	for p := uint64(base); maxv >= p; {
		maxDigits++
		if p > mask(64)/uint64(base) {
			break
		}
		p *= uint64(base)
	}
	nd := 1
	if maxDigits > 1 {
		pows := make([]uint64, maxDigits+1)
		pows[0] = 1
		for i := 1; i <= maxDigits; i++ {
			pows[i] = pows[i-1] * uint64(base)
		}
		d := in.decide(maxDigits, func(i int) bool {
			// i+1 digits: base^i <= m (for i>0) and m < base^(i+1)
			if i+1 < maxDigits && pows[i+1] <= minv {
				return false // every feasible value has more digits
			}
			c := tt.True
			if i > 0 {
				c = tt.Cmp(OpUle, tt.Const(w, pows[i]), m)
			}
			if i+1 < maxDigits || pows[i+1]-1 < mask(w) {
				if pows[i+1] <= mask(w) {
					c = tt.And(c, tt.Cmp(OpUlt, m, tt.Const(w, pows[i+1])))
				}
			}
			return in.feasible(c)
		})
		nd = d + 1
		c := tt.True
		if d > 0 {
			c = tt.Cmp(OpUle, tt.Const(w, pows[d]), m)
		}
		if pows[d+1] <= mask(w) && pows[d+1] > pows[d] {
			c = tt.And(c, tt.Cmp(OpUlt, m, tt.Const(w, pows[d+1])))
		}
		in.addPC(c)
	}
	tab := hexdigits
	if upper {
		tab = strings.ToUpper(tab)
	}
	digits := make([]*Term, nd)
	cur := m
	bt := tt.Const(w, uint64(base))
	for i := nd - 1; i >= 0; i-- {
		dv := tt.Extract(tt.Bin(OpURem, cur, bt), 8)
		if w == 8 {
			dv = tt.Bin(OpURem, cur, bt)
		}
		if base <= 10 {
			digits[i] = tt.Bin(OpAdd, dv, tt.Const(8, '0'))
		} else {
			var r *Term
			for k := base - 1; k >= 0; k-- {
				c := tt.Const(8, uint64(tab[k]))
				if r == nil {
					r = c
				} else {
					r = tt.Ite(tt.Eq(dv, tt.Const(8, uint64(k))), c, r)
				}
			}
			digits[i] = r
		}
		cur = tt.Bin(OpUDiv, cur, bt)
	}
	s := strFromTerms(digits)
	if neg {
		s = in.strConcat(concStr("-"), s)
	}
	return s
}
