package main

// gosym: bounded symbolic execution of Go SSA (from /repo's current source,
// plus an overlay-injected harness) decided by an SMT solver.
//
// usage: gosym -dir /repo -pkg ./pkg/blob -harness h.go[,h2.go] -entry F1,F2
//              [-tier quick|thorough] [-out result.json] [-solver z3]

import (
	"runtime"
	"runtime/pprof"
	"encoding/json"
	"flag"
	"fmt"
	"os"
	"path/filepath"
	"sort"
	"strings"
	"time"

	"golang.org/x/tools/go/packages"
	"golang.org/x/tools/go/ssa"
	"golang.org/x/tools/go/ssa/ssautil"
)

type EntryResult struct {
	Entry       string   `json:"entry"`
	Stats       *Stats   `json:"stats"`
	WallS       float64  `json:"wall_s"`
	SolverS     float64  `json:"solver_s"`
	Queries     int      `json:"queries"`
	CacheHits   int      `json:"cache_hits"`
	SolverErrs  []string `json:"solver_errors"`
	Functions   []string `json:"functions_encoded"`
	Files       []string `json:"files_encoded"`
	Notes       []string `json:"notes"`
	Exhausted   bool     `json:"exhausted"`
	PathLimit   bool     `json:"path_limit_hit"`
	Inconclusive int     `json:"inconclusive_paths"`
	CoverMissing []string `json:"cover_missing"`
	SampleTraces []SampleTrace `json:"sample_traces"`
	UsesStubs    bool     `json:"uses_stubs"`
	BuildFailed  string  `json:"build_failed,omitempty"`
}

type SampleTrace struct {
	Decisions []int   `json:"decisions"`
	Inputs    []Input `json:"inputs"`
}

type Result struct {
	Pkg     string        `json:"pkg"`
	Tier    string        `json:"tier"`
	LoadS   float64       `json:"load_s"`
	Entries []EntryResult `json:"entries"`
	Error   string        `json:"error,omitempty"`
}

func main() {
	dir := flag.String("dir", "/repo", "module directory")
	pkgPat := flag.String("pkg", "", "package pattern of the harness package, e.g. ./pkg/blob")
	harness := flag.String("harness", "", "comma-separated harness files (injected into the package dir)")
	extra := flag.String("extra", "", "comma-separated dst=src overlay pairs (dst relative to dir)")
	entries := flag.String("entry", "", "comma-separated harness functions")
	tier := flag.String("tier", "quick", "quick|thorough")
	out := flag.String("out", "", "result JSON path")
	solver := flag.String("solver", "z3", "solver binary")
	timeout := flag.Int("qtimeout", 60000, "per-query timeout ms")
	maxPaths := flag.Int("maxpaths", 200000, "path limit per entry")
	maxTime := flag.Int("maxtime", 1500, "time limit per entry (s)")
	verbose := flag.Bool("v", false, "verbose")
	vrtSrc := flag.String("vrt", "", "path to vrt.go (default: <exe>/../vrt/vrt.go)")
	replay := flag.String("replay", "", "decision list (comma separated) to run a single path with tracing")
	concrete := flag.String("concrete", "", "trace JSON: run the entry with these concrete inputs (engine concrete mode, R2 replay)")
	flag.Parse()
	if os.Getenv("VERIF_PROF") != "" {
		profSteps = map[string]int64{}
	}


	res := &Result{Pkg: *pkgPat, Tier: *tier}
	t0 := time.Now()
	writeOut := func() {
		b, _ := json.MarshalIndent(res, "", " ")
		if *out != "" {
			os.WriteFile(*out, b, 0644)
		} else {
			os.Stdout.Write(b)
			fmt.Println()
		}
	}

	if *vrtSrc == "" {
		exe, _ := os.Executable()
		*vrtSrc = filepath.Join(filepath.Dir(filepath.Dir(exe)), "vrt", "vrt.go")
	}
	overlay := map[string][]byte{}
	vb, err := os.ReadFile(*vrtSrc)
	if err != nil {
		res.Error = "cannot read vrt source: " + err.Error()
		writeOut()
		os.Exit(2)
	}
	overlay[filepath.Join(*dir, "internal/vrt/vrt.go")] = vb
	pkgDir := filepath.Join(*dir, strings.TrimPrefix(*pkgPat, "./"))
	for i, h := range strings.Split(*harness, ",") {
		if h == "" {
			continue
		}
		b, err := os.ReadFile(h)
		if err != nil {
			res.Error = err.Error()
			writeOut()
			os.Exit(2)
		}
		overlay[filepath.Join(pkgDir, fmt.Sprintf("zz_verif_%d_%s", i, filepath.Base(h)))] = b
	}
	for _, kv := range strings.Split(*extra, ",") {
		if kv == "" {
			continue
		}
		p := strings.SplitN(kv, "=", 2)
		b, err := os.ReadFile(p[1])
		if err != nil {
			res.Error = err.Error()
			writeOut()
			os.Exit(2)
		}
		overlay[filepath.Join(*dir, p[0])] = b
	}
	cfg := &packages.Config{
		Mode:    packages.LoadAllSyntax,
		Dir:     *dir,
		Overlay: overlay,
		Env:     append(os.Environ(), "GOFLAGS=-mod=mod", "GOPROXY=off", "GOSUMDB=off", "GOTOOLCHAIN=local"),
	}
	pkgs, err := packages.Load(cfg, *pkgPat)
	if err != nil {
		res.Error = "load: " + err.Error()
		writeOut()
		os.Exit(2)
	}
	var errs []string
	packages.Visit(pkgs, nil, func(p *packages.Package) {
		for _, e := range p.Errors {
			errs = append(errs, e.Error())
		}
	})
	if len(errs) > 0 {
		if len(errs) > 10 {
			errs = errs[:10]
		}
		res.Error = "build: " + strings.Join(errs, "; ")
		writeOut()
		os.Exit(3) // harness does not build against this tree
	}
	prog, spkgs := ssautil.AllPackages(pkgs, ssa.InstantiateGenerics)
	var hp *ssa.Package
	for _, p := range spkgs {
		if p != nil {
			hp = p
		}
	}
	// Build everything lazily: build only the harness package closure now.
	prog.Build()
	res.LoadS = time.Since(t0).Seconds()

	tierN := 0
	if *tier == "thorough" {
		tierN = 1
	}
	exit := 0
	for _, en := range strings.Split(*entries, ",") {
		if en == "" {
			continue
		}
		fn := hp.Func(en)
		er := EntryResult{Entry: en}
		if fn == nil {
			er.BuildFailed = "entry not found"
			res.Entries = append(res.Entries, er)
			continue
		}
		runEntry(prog, fn, &er, tierN, *solver, *timeout, *maxPaths, *maxTime, *verbose, *replay, *concrete)
		res.Entries = append(res.Entries, er)
		if len(er.Stats.Violations) > 0 {
			exit = 1
		}
		writeOut()
	}
	writeOut()
	dumpProf()
	os.Exit(exit)
}

func runEntry(prog *ssa.Program, fn *ssa.Function, er *EntryResult, tier int, solverBin string, qtimeout, maxPaths, maxTime int, verbose bool, replay string, concrete string) {
	t0 := time.Now()
	tt := NewTermTable()
	sol, err := NewSolver(tt, solverBin, qtimeout)
	if err != nil {
		er.BuildFailed = "solver: " + err.Error()
		er.Stats = &Stats{}
		return
	}
	defer sol.Close()
	sol.slowDir = os.Getenv("GOSYM_SLOWDIR")
	in := NewInterp(prog, tt, sol)
	in.tier = tier
	baseUnwind := in.unwind
	in.verbose = verbose
	er.Stats = in.stats
	allCover := map[string]bool{}

	// pre-initialise the non-std packages the harness depends on (once, not journaled)
	in.preInit(fn.Pkg)

	in.work = [][]int{{}}
	if concrete != "" {
		b, err := os.ReadFile(concrete)
		if err != nil {
			er.BuildFailed = err.Error()
			return
		}
		var tr struct {
			Inputs    []Input `json:"inputs"`
			Decisions []int   `json:"decisions"`
		}
		if err := json.Unmarshal(b, &tr); err != nil {
			er.BuildFailed = err.Error()
			return
		}
		in.concrete = tr.Inputs
		in.concreteMode = true
		in.work = [][]int{tr.Decisions}
		replay = "x"
	} else if replay != "" {
		var pre []int
		for _, s := range strings.Split(strings.TrimSuffix(replay, "x"), ",") {
			if s == "" {
				continue
			}
			var d int
			fmt.Sscanf(s, "%d", &d)
			pre = append(pre, d)
		}
		in.work = [][]int{pre}
	}
	notes := map[string]bool{}
	seenViol := map[string]bool{}
	for len(in.work) > 0 {
		if in.stats.Paths >= maxPaths || time.Since(t0) > time.Duration(maxTime)*time.Second {
			er.PathLimit = true
			break
		}
		// depth-first: take the last
		pre := in.work[len(in.work)-1]
		in.work = in.work[:len(in.work)-1]
		nv := len(in.stats.Violations)
		in.unwind = baseUnwind
		kind, msg := in.runPath(fn, pre)
		in.stats.Paths++
		in.stats.Steps += in.steps
		switch kind {
		case "ok":
			in.stats.PathsOK++
			if len(in.stats.Samples) < 3 || (in.stats.PathsOK%97 == 0 && len(in.stats.Samples) < 8) {
				s, tr := in.samplePath()
				in.stats.Samples = append(in.stats.Samples, s)
				if tr != nil {
					er.SampleTraces = append(er.SampleTraces, *tr)
				}
			}
			if in.usedStubs {
				er.UsesStubs = true
			}
		case "infeasible":
			in.stats.Infeasible++
		case "assumefalse":
			in.stats.AssumeFalse++
		case "unwind":
			in.stats.UnwindFail++
			in.stats.Unsupported["unwind: "+msg]++
		case "budget":
			in.stats.BudgetFail++
		case "unsupported":
			in.stats.Unsupported[msg]++
		case "violation":
		}
		// de-duplicate violations by message
		if len(in.stats.Violations) > nv {
			kept := in.stats.Violations[:nv]
			for _, v := range in.stats.Violations[nv:] {
				key := v.Kind + "|" + v.Msg
				if seenViol[key] {
					continue
				}
				seenViol[key] = true
				kept = append(kept, v)
			}
			in.stats.Violations = kept
		}
		for c := range in.covered {
			allCover[c] = true
			in.stats.Cover[c]++
		}
		for _, n := range in.pathNotes {
			notes[n] = true
		}
		if verbose {
			fmt.Fprintf(os.Stderr, "path %d %v -> %s %s (steps %d, work %d)\n", in.stats.Paths, in.taken, kind, msg, in.steps, len(in.work))
		}
		if replay != "" {
			break
		}
		if len(in.stats.Violations) >= 40 {
			break
		}
	}
	if mp := os.Getenv("GOSYM_MEMPROF"); mp != "" {
		if f, err := os.Create(mp); err == nil {
			runtime.GC()
			pprof.WriteHeapProfile(f)
			f.Close()
		}
	}
	er.Exhausted = len(in.work) == 0 && !er.PathLimit
	er.WallS = time.Since(t0).Seconds()
	er.SolverS = sol.Time.Seconds()
	er.Queries = sol.Queries
	er.CacheHits = sol.CacheHits
	er.SolverErrs = sol.Errors
	if len(er.SolverErrs) > 5 {
		er.SolverErrs = er.SolverErrs[:5]
	}
	er.Inconclusive = in.stats.UnwindFail + in.stats.BudgetFail
	for _, n := range in.stats.Unsupported {
		er.Inconclusive += n
	}
	for n := range notes {
		er.Notes = append(er.Notes, n)
	}
	for _, n := range in.preinitNotes {
		if strings.Contains(n, "perkeep.org/") {
			er.Notes = append(er.Notes, "preinit: "+n)
		}
	}
	sort.Strings(er.Notes)
	files := map[string]bool{}
	for name := range in.stats.Functions {
		er.Functions = append(er.Functions, name)
	}
	sort.Strings(er.Functions)
	for f := range in.infos {
		if f.Pos().IsValid() {
			files[prog.Fset.Position(f.Pos()).Filename] = true
		}
	}
	for f := range files {
		if strings.HasPrefix(f, "/repo/") {
			er.Files = append(er.Files, f)
		}
	}
	sort.Strings(er.Files)
}

func isStd(path string) bool {
	first := path
	if i := strings.IndexByte(path, '/'); i >= 0 {
		first = path[:i]
	}
	return !strings.Contains(first, ".")
}

// preInit runs package initialisers of the non-std import closure once.
func (in *Interp) preInit(p *ssa.Package) {
	seen := map[*ssa.Package]bool{}
	var order []*ssa.Package
	var visit func(p *ssa.Package)
	visit = func(p *ssa.Package) {
		if p == nil || seen[p] {
			return
		}
		seen[p] = true
		for _, imp := range p.Pkg.Imports() {
			visit(in.prog.Package(imp))
		}
		order = append(order, p)
	}
	visit(p)
	in.journalOn = false
	in.cur = &Goroutine{id: -2}
	in.covered = map[string]bool{}
	in.mergeFail = map[ssa.Instruction]int{}
	in.gwaits = map[*Goroutine]*gwait{}
	for _, q := range order {
		if isStd(q.Pkg.Path()) {
			continue
		}
		in.initPackage(q)
	}
	in.preinitNotes = append(in.preinitNotes, in.pathNotes...)
	in.pathNotes = nil
}

// runPath executes one path following the decision prefix.
func (in *Interp) runPath(fn *ssa.Function, prefix []int) (kind, msg string) {
	in.prefix = prefix
	in.pos = 0
	in.taken = in.taken[:0]
	in.pc = in.pc[:0]
	in.gs = nil
	in.symSeq = 0
	in.inputs = in.inputs[:0]
	in.steps = 0
	in.covered = map[string]bool{}
	in.mergeFail = map[ssa.Instruction]int{}
	in.expectPanic = false
	in.schedUsed = 0
	in.noMerge = false
	in.preemptLocks = false
	in.schedules = 1
	in.specDepth = 0
	in.raceReset()
	in.tickSeq = 0
	in.syncDepth = 0
	in.preemptBound, in.preemptUsed = 0, 0
	in.pathNotes = nil
	in.lastClock = nil
	in.clockTicks = 0
	in.concPos = 0
	in.model = nil
	in.concChoice = 0
	in.stubs = map[string]*FuncV{}
	in.gwaits = map[*Goroutine]*gwait{}
	in.journalOn = true
	in.journal = in.journal[:0]
	lazyInits := map[*ssa.Package]bool{}
	for p := range in.pkgInit {
		lazyInits[p] = true
	}
	defer func() {
		// collect packages initialised lazily during this path, undo, then init them permanently
		var newly []*ssa.Package
		for p := range in.pkgInit {
			if !lazyInits[p] {
				newly = append(newly, p)
			}
		}
		in.undoTo(0)
		in.journalOn = false
		if len(newly) > 0 {
			sort.Slice(newly, func(i, j int) bool { return newly[i].Pkg.Path() < newly[j].Pkg.Path() })
			in.cur = &Goroutine{id: -2}
			saveNotes := in.pathNotes
			for _, p := range newly {
				in.initPackage(p)
			}
			in.pathNotes = saveNotes
		}
		if r := recover(); r != nil {
			switch e := r.(type) {
			case pathEnd:
				kind, msg = e.kind, e.msg
			case unsupportedErr:
				kind, msg = "unsupported", e.msg
				if in.cur != nil && in.cur.top() != nil {
					msg += " @"
					for k := len(in.cur.stack) - 1; k >= 0 && k >= len(in.cur.stack)-6; k-- {
						msg += " < " + in.cur.stack[k].fn.String()
					}
				}
			case mergeAbort:
				kind, msg = "unsupported", "stray merge abort: "+e.why
			default:
				panic(r)
			}
		}
	}()
	main := &Goroutine{id: 0, isMain: true}
	main.vc.set(0, 1)
	in.gs = append(in.gs, main)
	in.cur = main
	fr := in.newFrame(fn, nil, nil)
	in.push(main, fr)
	in.runAll(main)
	return "ok", ""
}

func (in *Interp) samplePath() (string, *SampleTrace) {
	// a satisfying assignment of the path condition: one concrete input of this path
	res, model := in.sol.CheckModel(in.pc, in.allSyms())
	if res != Sat {
		return fmt.Sprintf("decisions=%v", in.taken), nil
	}
	tr := &SampleTrace{Decisions: append([]int(nil), in.taken...), Inputs: in.modelInputs(model)}
	var sb strings.Builder
	fmt.Fprintf(&sb, "decisions=%v inputs=[", in.taken)
	n := 0
	for _, r := range in.inputs {
		if n > 40 {
			sb.WriteString(" ...")
			break
		}
		if r.kind == "choice" {
			fmt.Fprintf(&sb, " c%d", r.val)
		} else {
			fmt.Fprintf(&sb, " %#x", model[r.sym.name])
		}
		n++
	}
	sb.WriteString(" ]")
	return sb.String(), tr
}

func dumpProf() {
	if profSteps == nil {
		return
	}
	type kv struct {
		k string
		v int64
	}
	var l []kv
	for k, v := range profSteps {
		l = append(l, kv{k, v})
	}
	sort.Slice(l, func(i, j int) bool { return l[i].v > l[j].v })
	for i := 0; i < len(l) && i < 25; i++ {
		fmt.Fprintf(os.Stderr, "PROF %12d %s\n", l[i].v, l[i].k)
	}
}
