package main

// Hash-consed SMT term DAG with constant folding.  Sorts: Bool (w==0) and
// BitVec w (w in 1..64).  Everything the interpreter computes over symbolic
// scalars is one of these; fully concrete operands are folded here and never
// reach the solver.

import (
	"fmt"
	"math/bits"
	"strings"
)

type Op uint8

const (
	OpConst Op = iota
	OpSym
	OpNot
	OpAnd
	OpOr
	OpIte
	OpEq
	OpUlt
	OpUle
	OpSlt
	OpSle
	OpAdd
	OpSub
	OpMul
	OpUDiv
	OpURem
	OpSDiv
	OpSRem
	OpBvAnd
	OpBvOr
	OpBvXor
	OpBvNot
	OpNeg
	OpShl
	OpLShr
	OpAShr
	OpZExt
	OpSExt
	OpExtract // low w bits
)

var opNames = map[Op]string{
	OpNot: "not", OpAnd: "and", OpOr: "or", OpIte: "ite", OpEq: "=",
	OpUlt: "bvult", OpUle: "bvule", OpSlt: "bvslt", OpSle: "bvsle",
	OpAdd: "bvadd", OpSub: "bvsub", OpMul: "bvmul", OpUDiv: "bvudiv", OpURem: "bvurem",
	OpSDiv: "bvsdiv", OpSRem: "bvsrem", OpBvAnd: "bvand", OpBvOr: "bvor", OpBvXor: "bvxor",
	OpBvNot: "bvnot", OpNeg: "bvneg", OpShl: "bvshl", OpLShr: "bvlshr", OpAShr: "bvashr",
}

type Term struct {
	id   int
	op   Op
	w    uint8 // 0 = Bool
	args []*Term
	cv   uint64 // constant value (masked); for Bool 0/1
	name string // symbol name
	def  bool   // defined in solver
	nsym int    // approximate count of symbols below (for stats)
}

type TermTable struct {
	hints map[int][2]int64 // signed range hints for symbols (from vrt.Range)
	tab   map[string]*Term
	all   []*Term
	syms  map[string]*Term
	True  *Term
	False *Term
}

func NewTermTable() *TermTable {
	tt := &TermTable{tab: map[string]*Term{}, syms: map[string]*Term{}, hints: map[int][2]int64{}}
	tt.True = tt.mk(OpConst, 0, 1, "", nil)
	tt.False = tt.mk(OpConst, 0, 0, "", nil)
	return tt
}

func mask(w uint8) uint64 {
	if w >= 64 {
		return ^uint64(0)
	}
	if w == 0 {
		return 1
	}
	return (uint64(1) << w) - 1
}

func (tt *TermTable) mk(op Op, w uint8, cv uint64, name string, args []*Term) *Term {
	var sb strings.Builder
	fmt.Fprintf(&sb, "%d:%d:", op, w)
	switch op {
	case OpConst:
		fmt.Fprintf(&sb, "%d", cv)
	case OpSym:
		sb.WriteString(name)
	default:
		for _, a := range args {
			fmt.Fprintf(&sb, "%d,", a.id)
		}
	}
	k := sb.String()
	if t, ok := tt.tab[k]; ok {
		return t
	}
	t := &Term{id: len(tt.all), op: op, w: w, cv: cv, name: name, args: args}
	tt.tab[k] = t
	tt.all = append(tt.all, t)
	return t
}

func (t *Term) IsConst() bool { return t.op == OpConst }
func (t *Term) IsBool() bool  { return t.w == 0 }
func (t *Term) IsTrue() bool  { return t.op == OpConst && t.w == 0 && t.cv == 1 }
func (t *Term) IsFalse() bool { return t.op == OpConst && t.w == 0 && t.cv == 0 }

// signed value of constant
func (t *Term) SVal() int64 {
	if t.w == 0 || t.w >= 64 {
		return int64(t.cv)
	}
	sh := 64 - uint(t.w)
	return int64(t.cv<<sh) >> sh
}

func (tt *TermTable) Const(w uint8, v uint64) *Term {
	return tt.mk(OpConst, w, v&mask(w), "", nil)
}
func (tt *TermTable) Bool(b bool) *Term {
	if b {
		return tt.True
	}
	return tt.False
}
func (tt *TermTable) Sym(name string, w uint8) *Term {
	t := tt.mk(OpSym, w, 0, name, nil)
	tt.syms[name] = t
	return t
}

func (tt *TermTable) Not(a *Term) *Term {
	if a.IsConst() {
		return tt.Bool(a.cv == 0)
	}
	if a.op == OpNot {
		return a.args[0]
	}
	return tt.mk(OpNot, 0, 0, "", []*Term{a})
}

func (tt *TermTable) And(a, b *Term) *Term {
	if a.IsConst() {
		if a.cv == 0 {
			return tt.False
		}
		return b
	}
	if b.IsConst() {
		if b.cv == 0 {
			return tt.False
		}
		return a
	}
	if a == b {
		return a
	}
	if (a.op == OpNot && a.args[0] == b) || (b.op == OpNot && b.args[0] == a) {
		return tt.False
	}
	return tt.mk(OpAnd, 0, 0, "", []*Term{a, b})
}

func (tt *TermTable) Or(a, b *Term) *Term {
	if a.IsConst() {
		if a.cv == 1 {
			return tt.True
		}
		return b
	}
	if b.IsConst() {
		if b.cv == 1 {
			return tt.True
		}
		return a
	}
	if a == b {
		return a
	}
	if (a.op == OpNot && a.args[0] == b) || (b.op == OpNot && b.args[0] == a) {
		return tt.True
	}
	return tt.mk(OpOr, 0, 0, "", []*Term{a, b})
}

func (tt *TermTable) Ite(c, a, b *Term) *Term {
	if c.IsConst() {
		if c.cv == 1 {
			return a
		}
		return b
	}
	if a == b {
		return a
	}
	if a.w != b.w {
		panic(fmt.Sprintf("ite width mismatch %d %d", a.w, b.w))
	}
	if a.w == 0 {
		if a.IsConst() && b.IsConst() {
			if a.cv == 1 {
				return c
			}
			return tt.Not(c)
		}
		if a.IsTrue() {
			return tt.Or(c, b)
		}
		if a.IsFalse() {
			return tt.And(tt.Not(c), b)
		}
		if b.IsTrue() {
			return tt.Or(tt.Not(c), a)
		}
		if b.IsFalse() {
			return tt.And(c, a)
		}
	}
	if c.op == OpNot {
		return tt.Ite(c.args[0], b, a)
	}
	// ite(c, ite(c,x,y), b) = ite(c,x,b)
	if a.op == OpIte && a.args[0] == c {
		return tt.Ite(c, a.args[1], b)
	}
	if b.op == OpIte && b.args[0] == c {
		return tt.Ite(c, a, b.args[2])
	}
	return tt.mk(OpIte, a.w, 0, "", []*Term{c, a, b})
}

func (tt *TermTable) Eq(a, b *Term) *Term {
	if a == b {
		return tt.True
	}
	if a.w != b.w {
		panic(fmt.Sprintf("eq width mismatch %d %d", a.w, b.w))
	}
	if a.IsConst() && b.IsConst() {
		return tt.Bool(a.cv == b.cv)
	}
	if a.w == 0 {
		if a.IsConst() {
			if a.cv == 1 {
				return b
			}
			return tt.Not(b)
		}
		if b.IsConst() {
			if b.cv == 1 {
				return a
			}
			return tt.Not(a)
		}
	}
	// push comparison with a constant through ite-chains of constants
	if b.IsConst() && a.op == OpIte {
		return tt.eqIteConst(a, b, 0)
	}
	if a.IsConst() && b.op == OpIte {
		return tt.eqIteConst(b, a, 0)
	}
	// zext(x) == const  ->  x == trunc(const) if const fits else false
	if b.IsConst() && a.op == OpZExt {
		x := a.args[0]
		if b.cv&^mask(x.w) != 0 {
			return tt.False
		}
		return tt.Eq(x, tt.Const(x.w, b.cv))
	}
	if a.IsConst() && b.op == OpZExt {
		return tt.Eq(b, a)
	}
	if a.id > b.id {
		a, b = b, a
	}
	return tt.mk(OpEq, 0, 0, "", []*Term{a, b})
}

func (tt *TermTable) eqIteConst(a, k *Term, depth int) *Term {
	if depth < 40 && a.op == OpIte && (a.args[1].IsConst() || a.args[1].op == OpIte) && (a.args[2].IsConst() || a.args[2].op == OpIte) {
		return tt.Ite(a.args[0], tt.eqIteConst(a.args[1], k, depth+1), tt.eqIteConst(a.args[2], k, depth+1))
	}
	if a.IsConst() {
		return tt.Bool(a.cv == k.cv)
	}
	if a.id > k.id {
		return tt.mk(OpEq, 0, 0, "", []*Term{k, a})
	}
	return tt.mk(OpEq, 0, 0, "", []*Term{a, k})
}

// ubound returns a conservative upper bound of t as an unsigned number.
func (tt *TermTable) ubound(t *Term, depth int) uint64 {
	m := mask(t.w)
	if depth > 12 {
		return m
	}
	switch t.op {
	case OpConst:
		return t.cv
	case OpSym:
		if h, ok := tt.hints[t.id]; ok && h[0] >= 0 {
			return min(uint64(h[1]), m)
		}
	case OpZExt:
		return tt.ubound(t.args[0], depth+1)
	case OpSExt:
		a := t.args[0]
		if u := tt.ubound(a, depth+1); u <= mask(a.w)>>1 {
			return u
		}
	case OpExtract:
		if u := tt.ubound(t.args[0], depth+1); u <= m {
			return u
		}
		return m
	case OpLShr:
		if t.args[1].IsConst() {
			if t.args[1].cv >= 64 {
				return 0
			}
			return tt.ubound(t.args[0], depth+1) >> t.args[1].cv
		}
		return tt.ubound(t.args[0], depth+1)
	case OpBvAnd:
		return min(tt.ubound(t.args[0], depth+1), tt.ubound(t.args[1], depth+1))
	case OpURem:
		if t.args[1].IsConst() && t.args[1].cv > 0 {
			return min(t.args[1].cv-1, tt.ubound(t.args[0], depth+1))
		}
		return tt.ubound(t.args[0], depth+1)
	case OpUDiv:
		if t.args[1].IsConst() && t.args[1].cv > 0 {
			return tt.ubound(t.args[0], depth+1) / t.args[1].cv
		}
		return tt.ubound(t.args[0], depth+1)
	case OpIte:
		return max(tt.ubound(t.args[1], depth+1), tt.ubound(t.args[2], depth+1))
	case OpAdd:
		a, b := tt.ubound(t.args[0], depth+1), tt.ubound(t.args[1], depth+1)
		if a+b >= a && a+b <= m {
			return a + b
		}
	case OpBvOr, OpBvXor:
		a, b := tt.ubound(t.args[0], depth+1), tt.ubound(t.args[1], depth+1)
		x := max(a, b)
		// next power of two minus one
		for i := uint(1); i < 64; i <<= 1 {
			x |= x >> i
		}
		return min(x, m)
	case OpShl:
		if t.args[1].IsConst() && t.args[1].cv < 64 {
			a := tt.ubound(t.args[0], depth+1)
			if r := a << t.args[1].cv; r>>t.args[1].cv == a && r <= m {
				return r
			}
		}
	case OpMul:
		a, b := tt.ubound(t.args[0], depth+1), tt.ubound(t.args[1], depth+1)
		if a == 0 || b == 0 {
			return 0
		}
		if r := a * b; r/b == a && r <= m {
			return r
		}
	}
	return m
}

// rng returns a conservative signed range of a 64-bit (or narrower) term.
func (tt *TermTable) rng(t *Term, depth int) (lo, hi int64, ok bool) {
	if depth > 16 || t.w == 0 {
		return 0, 0, false
	}
	switch t.op {
	case OpConst:
		return t.SVal(), t.SVal(), true
	case OpSym:
		if h, ok := tt.hints[t.id]; ok {
			return h[0], h[1], true
		}
	case OpZExt:
		u := tt.ubound(t.args[0], 0)
		if u <= 1<<62 {
			return 0, int64(u), true
		}
	case OpSExt:
		return tt.rng(t.args[0], depth+1)
	case OpAdd:
		la, ha, oka := tt.rng(t.args[0], depth+1)
		lb, hb, okb := tt.rng(t.args[1], depth+1)
		if oka && okb {
			lo, hi := la+lb, ha+hb
			lim := int64(1) << (min(uint(t.w), 63) - 1)
			if t.w == 64 {
				lim = 1 << 62
			}
			if lo >= -lim && hi < lim && la > -(1<<61) && ha < 1<<61 && lb > -(1<<61) && hb < 1<<61 {
				return lo, hi, true
			}
		}
	case OpSub:
		la, ha, oka := tt.rng(t.args[0], depth+1)
		lb, hb, okb := tt.rng(t.args[1], depth+1)
		if oka && okb && la > -(1<<61) && ha < 1<<61 && lb > -(1<<61) && hb < 1<<61 && t.w == 64 {
			return la - hb, ha - lb, true
		}
	case OpNeg:
		la, ha, oka := tt.rng(t.args[0], depth+1)
		if oka && la > -(1<<61) && t.w == 64 {
			return -ha, -la, true
		}
	case OpIte:
		la, ha, oka := tt.rng(t.args[1], depth+1)
		lb, hb, okb := tt.rng(t.args[2], depth+1)
		if oka && okb {
			return min(la, lb), max(ha, hb), true
		}
	case OpMul:
		if t.args[1].IsConst() && t.w == 64 {
			c := t.args[1].SVal()
			la, ha, oka := tt.rng(t.args[0], depth+1)
			if oka && c > 0 && c < 1<<31 && la > -(1<<31) && ha < 1<<31 {
				return la * c, ha * c, true
			}
		}
	case OpSDiv:
		if t.args[1].IsConst() && t.args[1].SVal() > 0 {
			c := t.args[1].SVal()
			la, ha, oka := tt.rng(t.args[0], depth+1)
			if oka {
				return la / c, ha / c, true
			}
		}
	case OpSRem:
		if t.args[1].IsConst() && t.args[1].SVal() > 0 {
			c := t.args[1].SVal()
			return -(c - 1), c - 1, true
		}
	case OpExtract:
		la, ha, oka := tt.rng(t.args[0], depth+1)
		lim := int64(1) << (uint(t.w) - 1)
		if oka && la >= -lim && ha < lim {
			return la, ha, true
		}
	}
	if u := tt.ubound(t, 0); u <= mask(t.w)>>1 && u <= 1<<62 {
		return 0, int64(u), true
	}
	return 0, 0, false
}

func (tt *TermTable) Cmp(op Op, a, b *Term) *Term {
	if a.w != b.w {
		panic(fmt.Sprintf("cmp width mismatch %d %d", a.w, b.w))
	}
	if (op == OpSlt || op == OpSle) && (!a.IsConst() || !b.IsConst()) {
		la, ha, oka := tt.rng(a, 0)
		lb, hb, okb := tt.rng(b, 0)
		if oka && okb {
			if op == OpSlt {
				if ha < lb {
					return tt.True
				}
				if la >= hb {
					return tt.False
				}
			} else {
				if ha <= lb {
					return tt.True
				}
				if la > hb {
					return tt.False
				}
			}
		}
	}
	if !a.IsConst() || !b.IsConst() {
		ua, ub := tt.ubound(a, 0), tt.ubound(b, 0)
		half := mask(a.w) >> 1
		if (op == OpSlt || op == OpSle) && ua <= half && ub <= half {
			// both non-negative: same as unsigned
			if op == OpSlt {
				op = OpUlt
			} else {
				op = OpUle
			}
		}
		if b.IsConst() {
			if op == OpUlt && ua < b.cv {
				return tt.True
			}
			if op == OpUle && ua <= b.cv {
				return tt.True
			}
		}
		if a.IsConst() {
			if op == OpUlt && ub <= a.cv {
				return tt.False
			}
			if op == OpUle && ub < a.cv {
				return tt.False
			}
		}
	}
	if a.IsConst() && b.IsConst() {
		switch op {
		case OpUlt:
			return tt.Bool(a.cv < b.cv)
		case OpUle:
			return tt.Bool(a.cv <= b.cv)
		case OpSlt:
			return tt.Bool(a.SVal() < b.SVal())
		case OpSle:
			return tt.Bool(a.SVal() <= b.SVal())
		}
	}
	if a == b {
		return tt.Bool(op == OpUle || op == OpSle)
	}
	if op == OpUlt && b.IsConst() && b.cv == 0 {
		return tt.False
	}
	if op == OpUle && a.IsConst() && a.cv == 0 {
		return tt.True
	}
	// unsigned compare of zero-extended value against a constant
	if (op == OpUlt || op == OpUle) && a.op == OpZExt && b.IsConst() {
		x := a.args[0]
		if b.cv > mask(x.w) {
			return tt.True
		}
		return tt.Cmp(op, x, tt.Const(x.w, b.cv))
	}
	if (op == OpUlt || op == OpUle) && b.op == OpZExt && a.IsConst() {
		x := b.args[0]
		if a.cv > mask(x.w) {
			return tt.False
		}
		return tt.Cmp(op, tt.Const(x.w, a.cv), x)
	}
	// signed compare of zext'd values against non-negative constant == unsigned
	if (op == OpSlt || op == OpSle) && a.op == OpZExt && a.args[0].w < a.w && b.IsConst() {
		if b.SVal() < 0 {
			return tt.False
		}
		if op == OpSlt {
			return tt.Cmp(OpUlt, a, b)
		}
		return tt.Cmp(OpUle, a, b)
	}
	if (op == OpSlt || op == OpSle) && b.op == OpZExt && b.args[0].w < b.w && a.IsConst() {
		if a.SVal() < 0 {
			return tt.True
		}
		if op == OpSlt {
			return tt.Cmp(OpUlt, a, b)
		}
		return tt.Cmp(OpUle, a, b)
	}
	// push through ite of constants
	if b.IsConst() && a.op == OpIte && a.args[1].IsConst() && a.args[2].IsConst() {
		return tt.Ite(a.args[0], tt.Cmp(op, a.args[1], b), tt.Cmp(op, a.args[2], b))
	}
	if a.IsConst() && b.op == OpIte && b.args[1].IsConst() && b.args[2].IsConst() {
		return tt.Ite(b.args[0], tt.Cmp(op, a, b.args[1]), tt.Cmp(op, a, b.args[2]))
	}
	return tt.mk(op, 0, 0, "", []*Term{a, b})
}

func foldBin(op Op, w uint8, x, y uint64) (uint64, bool) {
	m := mask(w)
	sx := func(v uint64) int64 {
		if w >= 64 {
			return int64(v)
		}
		sh := 64 - uint(w)
		return int64(v<<sh) >> sh
	}
	switch op {
	case OpAdd:
		return (x + y) & m, true
	case OpSub:
		return (x - y) & m, true
	case OpMul:
		return (x * y) & m, true
	case OpUDiv:
		if y == 0 {
			return m, true
		}
		return x / y, true
	case OpURem:
		if y == 0 {
			return x, true
		}
		return x % y, true
	case OpSDiv:
		if y == 0 {
			return 0, false
		}
		a, b := sx(x), sx(y)
		if b == -1 {
			return uint64(-a) & m, true
		}
		return uint64(a/b) & m, true
	case OpSRem:
		if y == 0 {
			return 0, false
		}
		a, b := sx(x), sx(y)
		if b == -1 {
			return 0, true
		}
		return uint64(a%b) & m, true
	case OpBvAnd:
		return x & y, true
	case OpBvOr:
		return x | y, true
	case OpBvXor:
		return x ^ y, true
	case OpShl:
		if y >= uint64(w) {
			return 0, true
		}
		return (x << y) & m, true
	case OpLShr:
		if y >= uint64(w) {
			return 0, true
		}
		return x >> y, true
	case OpAShr:
		a := sx(x)
		if y >= uint64(w) {
			if a < 0 {
				return m, true
			}
			return 0, true
		}
		return uint64(a>>y) & m, true
	}
	return 0, false
}

func (tt *TermTable) Bin(op Op, a, b *Term) *Term {
	if a.w != b.w {
		panic(fmt.Sprintf("bin %s width mismatch %d %d", opNames[op], a.w, b.w))
	}
	w := a.w
	if a.IsConst() && b.IsConst() {
		if v, ok := foldBin(op, w, a.cv, b.cv); ok {
			return tt.Const(w, v)
		}
	}
	if b.IsConst() && a.op == OpIte && a.args[1].IsConst() && a.args[2].IsConst() && !(b.cv == 0 && (op == OpSDiv || op == OpSRem)) {
		return tt.Ite(a.args[0], tt.Bin(op, a.args[1], b), tt.Bin(op, a.args[2], b))
	}
	if a.IsConst() && b.op == OpIte && b.args[1].IsConst() && b.args[2].IsConst() && op != OpSDiv && op != OpSRem && op != OpUDiv && op != OpURem {
		return tt.Ite(b.args[0], tt.Bin(op, a, b.args[1]), tt.Bin(op, a, b.args[2]))
	}
	if (op == OpSDiv || op == OpSRem) && b.IsConst() && b.SVal() > 0 && w == 64 {
		if lo, hi, ok := tt.rng(a, 0); ok {
			c := b.SVal()
			if lo/c == hi/c {
				q := tt.Const(w, uint64(lo/c))
				if op == OpSDiv {
					return q
				}
				return tt.Bin(OpSub, a, tt.Const(w, uint64((lo/c)*c)))
			}
		}
	}
	switch op {
	case OpAdd:
		if a.IsConst() && a.cv == 0 {
			return b
		}
		if b.IsConst() && b.cv == 0 {
			return a
		}
		// (x + c1) + c2
		if b.IsConst() && a.op == OpAdd && a.args[1].IsConst() {
			return tt.Bin(OpAdd, a.args[0], tt.Const(w, a.args[1].cv+b.cv))
		}
		if a.IsConst() {
			a, b = b, a
		}
	case OpSub:
		if b.IsConst() && b.cv == 0 {
			return a
		}
		if a == b {
			return tt.Const(w, 0)
		}
		if b.IsConst() {
			return tt.Bin(OpAdd, a, tt.Const(w, -b.cv))
		}
	case OpMul:
		if a.IsConst() {
			a, b = b, a
		}
		if b.IsConst() {
			if b.cv == 0 {
				return b
			}
			if b.cv == 1 {
				return a
			}
			if bits.OnesCount64(b.cv) == 1 {
				return tt.Bin(OpShl, a, tt.Const(w, uint64(bits.TrailingZeros64(b.cv))))
			}
		}
	case OpUDiv:
		if b.IsConst() && b.cv == 1 {
			return a
		}
		if b.IsConst() && bits.OnesCount64(b.cv) == 1 {
			return tt.Bin(OpLShr, a, tt.Const(w, uint64(bits.TrailingZeros64(b.cv))))
		}
	case OpURem:
		if b.IsConst() && bits.OnesCount64(b.cv) == 1 {
			return tt.Bin(OpBvAnd, a, tt.Const(w, b.cv-1))
		}
	case OpBvAnd:
		if a.IsConst() {
			a, b = b, a
		}
		if b.IsConst() {
			if b.cv == 0 {
				return b
			}
			if b.cv == mask(w) {
				return a
			}
			// zext(x) & m where m covers x's width
			if a.op == OpZExt && b.cv&mask(a.args[0].w) == mask(a.args[0].w) {
				return a
			}
			if u := tt.ubound(a, 0); u < mask(w) {
				// bits above the bound are zero
				hb := uint64(1)
				for hb <= u && hb != 0 {
					hb <<= 1
				}
				if hb != 0 && b.cv&(hb-1) == 0 {
					return tt.Const(w, 0)
				}
				if hb != 0 && b.cv&(hb-1) == hb-1 {
					return a
				}
			}
		}
		if a == b {
			return a
		}
	case OpBvOr:
		if a.IsConst() {
			a, b = b, a
		}
		if b.IsConst() {
			if b.cv == 0 {
				return a
			}
			if b.cv == mask(w) {
				return b
			}
		}
		if a == b {
			return a
		}
	case OpBvXor:
		if a.IsConst() {
			a, b = b, a
		}
		if b.IsConst() && b.cv == 0 {
			return a
		}
		if a == b {
			return tt.Const(w, 0)
		}
	case OpShl, OpLShr, OpAShr:
		if b.IsConst() && b.cv == 0 {
			return a
		}
		if b.IsConst() && b.cv >= uint64(w) && op != OpAShr {
			return tt.Const(w, 0)
		}
		if a.IsConst() && a.cv == 0 {
			return a
		}
		// (zext8 x) >> k with k>=8 -> 0 ; lshr of zext: zext(lshr)
		if op == OpLShr && b.IsConst() && a.op == OpZExt {
			x := a.args[0]
			if b.cv >= uint64(x.w) {
				return tt.Const(w, 0)
			}
			return tt.ZExt(tt.Bin(OpLShr, x, tt.Const(x.w, b.cv)), w)
		}
	}
	return tt.mk(op, w, 0, "", []*Term{a, b})
}

func (tt *TermTable) BvNot(a *Term) *Term {
	if a.IsConst() {
		return tt.Const(a.w, ^a.cv)
	}
	if a.op == OpBvNot {
		return a.args[0]
	}
	return tt.mk(OpBvNot, a.w, 0, "", []*Term{a})
}

func (tt *TermTable) Neg(a *Term) *Term {
	if a.IsConst() {
		return tt.Const(a.w, -a.cv)
	}
	return tt.mk(OpNeg, a.w, 0, "", []*Term{a})
}

func (tt *TermTable) ZExt(a *Term, w uint8) *Term {
	if a.w == w {
		return a
	}
	if a.w > w {
		return tt.Extract(a, w)
	}
	if a.IsConst() {
		return tt.Const(w, a.cv)
	}
	if a.op == OpZExt {
		return tt.ZExt(a.args[0], w)
	}
	if a.op == OpIte && a.args[1].IsConst() && a.args[2].IsConst() {
		return tt.Ite(a.args[0], tt.ZExt(a.args[1], w), tt.ZExt(a.args[2], w))
	}
	return tt.mk(OpZExt, w, 0, "", []*Term{a})
}

func (tt *TermTable) SExt(a *Term, w uint8) *Term {
	if a.w == w {
		return a
	}
	if a.w > w {
		return tt.Extract(a, w)
	}
	if a.IsConst() {
		return tt.Const(w, uint64(a.SVal()))
	}
	if a.op == OpZExt { // sign bit is zero
		return tt.ZExt(a.args[0], w)
	}
	if a.op == OpIte && a.args[1].IsConst() && a.args[2].IsConst() {
		return tt.Ite(a.args[0], tt.SExt(a.args[1], w), tt.SExt(a.args[2], w))
	}
	return tt.mk(OpSExt, w, 0, "", []*Term{a})
}

// Extract low w bits.
func (tt *TermTable) Extract(a *Term, w uint8) *Term {
	if a.w == w {
		return a
	}
	if a.w < w {
		panic("extract widening")
	}
	if a.IsConst() {
		return tt.Const(w, a.cv)
	}
	if a.op == OpZExt || a.op == OpSExt {
		x := a.args[0]
		if x.w == w {
			return x
		}
		if x.w > w {
			return tt.Extract(x, w)
		}
		if a.op == OpZExt {
			return tt.ZExt(x, w)
		}
		return tt.SExt(x, w)
	}
	if a.op == OpIte && a.args[1].IsConst() && a.args[2].IsConst() {
		return tt.Ite(a.args[0], tt.Extract(a.args[1], w), tt.Extract(a.args[2], w))
	}
	return tt.mk(OpExtract, w, 0, "", []*Term{a})
}

// ---------- SMT-LIB printing ----------

func sortStr(w uint8) string {
	if w == 0 {
		return "Bool"
	}
	return fmt.Sprintf("(_ BitVec %d)", w)
}

func (t *Term) ref() string {
	switch t.op {
	case OpConst:
		if t.w == 0 {
			if t.cv == 1 {
				return "true"
			}
			return "false"
		}
		return fmt.Sprintf("(_ bv%d %d)", t.cv, t.w)
	case OpSym:
		return t.name
	}
	return fmt.Sprintf("t%d", t.id)
}

func (t *Term) body() string {
	switch t.op {
	case OpZExt:
		return fmt.Sprintf("((_ zero_extend %d) %s)", t.w-t.args[0].w, t.args[0].ref())
	case OpSExt:
		return fmt.Sprintf("((_ sign_extend %d) %s)", t.w-t.args[0].w, t.args[0].ref())
	case OpExtract:
		return fmt.Sprintf("((_ extract %d 0) %s)", t.w-1, t.args[0].ref())
	}
	var sb strings.Builder
	sb.WriteByte('(')
	sb.WriteString(opNames[t.op])
	for _, a := range t.args {
		sb.WriteByte(' ')
		sb.WriteString(a.ref())
	}
	sb.WriteByte(')')
	return sb.String()
}

// String renders a small term for diagnostics.
func (t *Term) String() string {
	if t.op == OpConst {
		if t.w == 0 {
			return t.ref()
		}
		return fmt.Sprintf("%d", t.cv)
	}
	if t.op == OpSym {
		return t.name
	}
	return fmt.Sprintf("t%d", t.id)
}

// collectSyms returns the symbols under the given terms.
func collectSyms(ts []*Term) []*Term {
	seen := map[int]bool{}
	var out []*Term
	var walk func(t *Term)
	walk = func(t *Term) {
		if seen[t.id] {
			return
		}
		seen[t.id] = true
		if t.op == OpSym {
			out = append(out, t)
		}
		for _, a := range t.args {
			walk(a)
		}
	}
	for _, t := range ts {
		walk(t)
	}
	return out
}

// Eval computes the value of t under an assignment of the symbols (missing symbols = 0).
func (tt *TermTable) Eval(t *Term, model map[string]uint64, memo map[int]uint64) uint64 {
	if t.op == OpConst {
		return t.cv
	}
	if v, ok := memo[t.id]; ok {
		return v
	}
	var r uint64
	ev := func(i int) uint64 { return tt.Eval(t.args[i], model, memo) }
	sx := func(v uint64, w uint8) int64 {
		if w >= 64 {
			return int64(v)
		}
		sh := 64 - uint(w)
		return int64(v<<sh) >> sh
	}
	switch t.op {
	case OpSym:
		r = model[t.name] & mask(t.w)
	case OpNot:
		r = 1 - ev(0)
	case OpAnd:
		r = ev(0) & ev(1)
	case OpOr:
		r = ev(0) | ev(1)
	case OpIte:
		if ev(0) == 1 {
			r = ev(1)
		} else {
			r = ev(2)
		}
	case OpEq:
		if ev(0) == ev(1) {
			r = 1
		}
	case OpUlt:
		if ev(0) < ev(1) {
			r = 1
		}
	case OpUle:
		if ev(0) <= ev(1) {
			r = 1
		}
	case OpSlt:
		if sx(ev(0), t.args[0].w) < sx(ev(1), t.args[0].w) {
			r = 1
		}
	case OpSle:
		if sx(ev(0), t.args[0].w) <= sx(ev(1), t.args[0].w) {
			r = 1
		}
	case OpBvNot:
		r = ^ev(0) & mask(t.w)
	case OpNeg:
		r = -ev(0) & mask(t.w)
	case OpZExt:
		r = ev(0)
	case OpSExt:
		r = uint64(sx(ev(0), t.args[0].w)) & mask(t.w)
	case OpExtract:
		r = ev(0) & mask(t.w)
	case OpSDiv, OpSRem:
		x, y := ev(0), ev(1)
		if y == 0 {
			// SMT-LIB semantics
			if t.op == OpSRem {
				r = x
			} else if sx(x, t.w) < 0 {
				r = 1
			} else {
				r = mask(t.w)
			}
		} else {
			r, _ = foldBin(t.op, t.w, x, y)
		}
	default:
		r, _ = foldBin(t.op, t.w, ev(0), ev(1))
	}
	memo[t.id] = r
	return r
}

// Dump renders t as an s-expression up to the given depth (diagnostics).
func (t *Term) Dump(depth int) string {
	if t.op == OpConst || t.op == OpSym {
		return t.String()
	}
	if depth == 0 {
		return "..."
	}
	name := opNames[t.op]
	switch t.op {
	case OpZExt:
		name = fmt.Sprintf("zext%d", t.w)
	case OpSExt:
		name = fmt.Sprintf("sext%d", t.w)
	case OpExtract:
		name = fmt.Sprintf("extract%d", t.w)
	}
	var sb strings.Builder
	sb.WriteString("(" + name)
	for _, a := range t.args {
		sb.WriteString(" " + a.Dump(depth-1))
	}
	sb.WriteString(")")
	return sb.String()
}
