package main

import (
	"fmt"
	"go/types"
	"strconv"
	"strings"

	"golang.org/x/tools/go/ssa"
)

type tailCall struct {
	fn   *FuncV
	args []Value
	done func() // run when fn has returned, before the result is delivered
}

type intrinsic func(in *Interp, g *Goroutine, fn *ssa.Function, args []Value) (Value, *tailCall)

var intrinsics = map[string]intrinsic{}

const vrtPath = "perkeep.org/internal/vrt."

func reg(name string, h intrinsic) { intrinsics[name] = h }

func (in *Interp) lookupIntrinsicByShape(fn *ssa.Function) intrinsic {
	p := pkgPathOf(fn)
	switch p {
	case "log":
		return func(in *Interp, g *Goroutine, fn *ssa.Function, args []Value) (Value, *tailCall) { return nil, nil }
	}
	return nil
}

func mkBytes(in *Interp, ts []*Term) SliceV {
	o := in.newObject(len(ts), "bytes")
	for i, t := range ts {
		o.cells[i] = t
	}
	return SliceV{obj: o, len: len(ts), cap: len(ts), esz: 1}
}

func sliceTerms(s SliceV) []*Term {
	out := make([]*Term, s.len)
	for i := 0; i < s.len; i++ {
		out[i] = s.obj.cells[s.off+i].(*Term)
	}
	return out
}

func (in *Interp) assume(c *Term) {
	if c.IsTrue() {
		return
	}
	if c.IsFalse() || !in.feasible(c) {
		panic(pathEnd{kind: "assumefalse"})
	}
	in.noteAssume(c)
	in.addPC(c)
}

func (in *Interp) concInt(v Value, what string) int {
	t := v.(*Term)
	if !t.IsConst() {
		panic(unsupported(what + ": argument must be concrete"))
	}
	return int(t.SVal())
}

func concString(v Value, what string) string {
	s := v.(*StrV)
	if s.isSym {
		panic(unsupported(what + ": string must be concrete"))
	}
	return s.conc
}

func init() {
	// ----- vrt -----
	for name, w := range map[string]uint8{"Bool": 0, "U8": 8, "U16": 16, "U32": 32, "U64": 64, "I64": 64, "Int": 64, "I32": 32} {
		w := w
		reg(vrtPath+name, func(in *Interp, g *Goroutine, fn *ssa.Function, args []Value) (Value, *tailCall) {
			return in.freshSym(w, "vrt", ""), nil
		})
	}
	reg(vrtPath+"Range", func(in *Interp, g *Goroutine, fn *ssa.Function, args []Value) (Value, *tailCall) {
		lo, hi := args[0].(*Term), args[1].(*Term)
		if in.concreteMode || !lo.IsConst() || !hi.IsConst() {
			x := in.freshSym(64, "vrt", "range")
			in.assume(in.tt.And(in.tt.Cmp(OpSle, lo, x), in.tt.Cmp(OpSle, x, hi)))
			return x, nil
		}
		// the range is part of the symbol's name so that the hint is valid on every path
		x := in.freshSymSuffix(64, "vrt", "range", fmt.Sprintf("_r%d_%d", uint64(lo.SVal()), uint64(hi.SVal())))
		delete(in.tt.hints, x.id)
		c := in.tt.And(in.tt.Cmp(OpSle, lo, x), in.tt.Cmp(OpSle, x, hi))
		in.assume(c)
		in.tt.hints[x.id] = [2]int64{lo.SVal(), hi.SVal()}
		return x, nil
	})
	reg(vrtPath+"Choice", func(in *Interp, g *Goroutine, fn *ssa.Function, args []Value) (Value, *tailCall) {
		n := in.concInt(args[0], "vrt.Choice")
		if n <= 0 {
			panic(pathEnd{kind: "assumefalse"})
		}
		d := 0
		if n > 1 || in.concreteMode {
			d = in.decide(n, nil)
		}
		in.inputs = append(in.inputs, inputRec{kind: "choice", val: d, src: "vrt"})
		return in.ci(d), nil
	})
	reg(vrtPath+"Bytes", func(in *Interp, g *Goroutine, fn *ssa.Function, args []Value) (Value, *tailCall) {
		n := in.concInt(args[0], "vrt.Bytes")
		ts := make([]*Term, n)
		for i := range ts {
			ts[i] = in.freshSym(8, "vrt", "")
		}
		return mkBytes(in, ts), nil
	})
	reg(vrtPath+"String", func(in *Interp, g *Goroutine, fn *ssa.Function, args []Value) (Value, *tailCall) {
		n := in.concInt(args[0], "vrt.String")
		ts := make([]*Term, n)
		for i := range ts {
			ts[i] = in.freshSym(8, "vrt", "")
		}
		return strFromTerms(ts), nil
	})
	reg(vrtPath+"Assume", func(in *Interp, g *Goroutine, fn *ssa.Function, args []Value) (Value, *tailCall) {
		in.assume(args[0].(*Term))
		return nil, nil
	})
	reg(vrtPath+"Assert", func(in *Interp, g *Goroutine, fn *ssa.Function, args []Value) (Value, *tailCall) {
		in.checkAssert(args[0].(*Term), concString(args[1], "vrt.Assert"), false)
		return nil, nil
	})
	reg(vrtPath+"Mech", func(in *Interp, g *Goroutine, fn *ssa.Function, args []Value) (Value, *tailCall) {
		in.checkAssert(args[0].(*Term), concString(args[1], "vrt.Mech"), true)
		return nil, nil
	})
	reg(vrtPath+"Cover", func(in *Interp, g *Goroutine, fn *ssa.Function, args []Value) (Value, *tailCall) {
		if in.specDepth == 0 {
			in.covered[concString(args[0], "vrt.Cover")] = true
		}
		return nil, nil
	})
	reg(vrtPath+"Unwind", func(in *Interp, g *Goroutine, fn *ssa.Function, args []Value) (Value, *tailCall) {
		in.unwind = in.concInt(args[0], "vrt.Unwind")
		return nil, nil
	})
	reg(vrtPath+"Schedules", func(in *Interp, g *Goroutine, fn *ssa.Function, args []Value) (Value, *tailCall) {
		in.schedules = in.concInt(args[0], "vrt.Schedules")
		return nil, nil
	})
	reg(vrtPath+"NoMerge", func(in *Interp, g *Goroutine, fn *ssa.Function, args []Value) (Value, *tailCall) {
		in.noMerge = args[0].(*Term).IsTrue()
		return nil, nil
	})
	reg(vrtPath+"ExpectPanic", func(in *Interp, g *Goroutine, fn *ssa.Function, args []Value) (Value, *tailCall) {
		in.expectPanic = true
		return nil, nil
	})
	reg(vrtPath+"Tier", func(in *Interp, g *Goroutine, fn *ssa.Function, args []Value) (Value, *tailCall) {
		return in.ci(in.tier), nil
	})
	reg(vrtPath+"Symbolic", func(in *Interp, g *Goroutine, fn *ssa.Function, args []Value) (Value, *tailCall) {
		return in.tt.True, nil
	})
	reg(vrtPath+"Fault", func(in *Interp, g *Goroutine, fn *ssa.Function, args []Value) (Value, *tailCall) {
		return in.freshSym(0, "vrt", concString(args[0], "vrt.Fault")), nil
	})
	reg(vrtPath+"Note", func(in *Interp, g *Goroutine, fn *ssa.Function, args []Value) (Value, *tailCall) {
		in.note(concString(args[0], "vrt.Note"))
		return nil, nil
	})
	reg(vrtPath+"PreemptAtLocks", func(in *Interp, g *Goroutine, fn *ssa.Function, args []Value) (Value, *tailCall) {
		in.preemptLocks = args[0].(*Term).IsTrue()
		return nil, nil
	})
	reg(vrtPath+"Quiesce", func(in *Interp, g *Goroutine, fn *ssa.Function, args []Value) (Value, *tailCall) {
		// wait until every other goroutine has finished or is blocked for good
		busy := func() bool {
			for _, o := range in.gs {
				if o != g && !o.done && (!o.blocked || (o.ready != nil && o.ready())) {
					return true
				}
			}
			return false
		}
		if busy() {
			in.block(g, nil, "vrt.Quiesce", func() bool { return !busy() })
			return nil, nil
		}
		// the harness observes the quiescent state: treated as synchronised with everything so far
		for _, o := range in.gs {
			in.raceJoinGoroutine(g, o)
		}
		return nil, nil
	})
	reg(vrtPath+"Preemptions", func(in *Interp, g *Goroutine, fn *ssa.Function, args []Value) (Value, *tailCall) {
		in.preemptBound = in.concInt(args[0], "vrt.Preemptions")
		in.preemptUsed = 0
		return nil, nil
	})
	reg(vrtPath+"Yield", func(in *Interp, g *Goroutine, fn *ssa.Function, args []Value) (Value, *tailCall) {
		in.preemptPoint(g, in.preemptBound > 0 && g.id >= 0)
		return nil, nil
	})
	reg(vrtPath+"Tick", func(in *Interp, g *Goroutine, fn *ssa.Function, args []Value) (Value, *tailCall) {
		in.tickSeq++
		return in.tt.Const(64, uint64(in.tickSeq)), nil
	})
	reg(vrtPath+"RaceDetect", func(in *Interp, g *Goroutine, fn *ssa.Function, args []Value) (Value, *tailCall) {
		in.raceEnable(args[0].(*Term).IsTrue())
		return nil, nil
	})
	reg(vrtPath+"Concretize", func(in *Interp, g *Goroutine, fn *ssa.Function, args []Value) (Value, *tailCall) {
		lo, hi := in.concInt(args[1], "Concretize lo"), in.concInt(args[2], "Concretize hi")
		return in.ci(in.concretizeInt(args[0].(*Term), lo, hi, "vrt.Concretize")), nil
	})
	reg(vrtPath+"IsConcrete", func(in *Interp, g *Goroutine, fn *ssa.Function, args []Value) (Value, *tailCall) {
		return in.tt.Bool(args[0].(*Term).IsConst()), nil
	})
	// vrt.Stub(name string, f any): route calls of the named function to f
	reg(vrtPath+"Stub", func(in *Interp, g *Goroutine, fn *ssa.Function, args []Value) (Value, *tailCall) {
		name := concString(args[0], "vrt.Stub")
		iv := args[1].(IfaceV)
		fv, _ := iv.val.(*FuncV)
		if fv == nil {
			delete(in.stubs, name)
			return nil, nil
		}
		in.stubs[name] = fv
		return nil, nil
	})

	// ----- sync -----
	reg("(*sync.Mutex).Lock", func(in *Interp, g *Goroutine, fn *ssa.Function, args []Value) (Value, *tailCall) {
		p := args[0].(PtrV)
		if p.obj == nil {
			in.goPanic("nil mutex")
		}
		if in.maybePreempt(g) {
			return nil, nil
		}
		st, _ := p.obj.cells[p.off].(*Term)
		if st != nil && st.IsConst() && st.cv != 0 {
			obj, off := p.obj, p.off
			in.block(g, nil, "Mutex.Lock", func() bool {
				t, _ := obj.cells[off].(*Term)
				return t == nil || t.cv == 0
			})
			return nil, nil
		}
		in.setCell(p.obj, p.off, in.tt.Const(32, 1))
		in.raceAcquire(g, raceKey{p.obj, p.off, 0})
		return nil, nil
	})
	reg("(*sync.Mutex).TryLock", func(in *Interp, g *Goroutine, fn *ssa.Function, args []Value) (Value, *tailCall) {
		p := args[0].(PtrV)
		st, _ := p.obj.cells[p.off].(*Term)
		if st != nil && st.cv != 0 {
			return in.tt.False, nil
		}
		in.setCell(p.obj, p.off, in.tt.Const(32, 1))
		in.raceAcquire(g, raceKey{p.obj, p.off, 0})
		return in.tt.True, nil
	})
	reg("(*sync.Mutex).Unlock", func(in *Interp, g *Goroutine, fn *ssa.Function, args []Value) (Value, *tailCall) {
		p := args[0].(PtrV)
		st, _ := p.obj.cells[p.off].(*Term)
		if st == nil || st.cv == 0 {
			in.goPanic("fatal error: sync: unlock of unlocked mutex")
		}
		in.raceRelease(g, raceKey{p.obj, p.off, 0})
		in.setCell(p.obj, p.off, in.tt.Const(32, 0))
		return nil, nil
	})
	// RWMutex: cell0 = writer flag (w.state), cell2.. ; we use the first two cells: [0]=writer, [1]=readers
	rw := func(p PtrV) (*Object, int) { return p.obj, p.off }
	reg("(*sync.RWMutex).Lock", func(in *Interp, g *Goroutine, fn *ssa.Function, args []Value) (Value, *tailCall) {
		if in.maybePreempt(g) {
			return nil, nil
		}
		o, off := rw(args[0].(PtrV))
		wv, _ := o.cells[off].(*Term)
		rv, _ := o.cells[off+1].(*Term)
		if (wv != nil && wv.cv != 0) || (rv != nil && rv.cv != 0) {
			in.block(g, nil, "RWMutex.Lock", func() bool {
				a, _ := o.cells[off].(*Term)
				b, _ := o.cells[off+1].(*Term)
				return (a == nil || a.cv == 0) && (b == nil || b.cv == 0)
			})
			return nil, nil
		}
		in.setCell(o, off, in.tt.Const(32, 1))
		in.raceAcquire(g, raceKey{o, off, 0})
		in.raceAcquire(g, raceKey{o, off, 1})
		return nil, nil
	})
	reg("(*sync.RWMutex).Unlock", func(in *Interp, g *Goroutine, fn *ssa.Function, args []Value) (Value, *tailCall) {
		o, off := rw(args[0].(PtrV))
		wv, _ := o.cells[off].(*Term)
		if wv == nil || wv.cv == 0 {
			in.goPanic("fatal error: sync: Unlock of unlocked RWMutex")
		}
		in.raceRelease(g, raceKey{o, off, 0})
		in.setCell(o, off, in.tt.Const(32, 0))
		return nil, nil
	})
	reg("(*sync.RWMutex).RLock", func(in *Interp, g *Goroutine, fn *ssa.Function, args []Value) (Value, *tailCall) {
		o, off := rw(args[0].(PtrV))
		wv, _ := o.cells[off].(*Term)
		if wv != nil && wv.cv != 0 {
			in.block(g, nil, "RWMutex.RLock", func() bool {
				a, _ := o.cells[off].(*Term)
				return a == nil || a.cv == 0
			})
			return nil, nil
		}
		rv, _ := o.cells[off+1].(*Term)
		n := uint64(0)
		if rv != nil {
			n = rv.cv
		}
		in.setCell(o, off+1, in.tt.Const(32, n+1))
		in.raceAcquire(g, raceKey{o, off, 0})
		return nil, nil
	})
	reg("(*sync.RWMutex).RUnlock", func(in *Interp, g *Goroutine, fn *ssa.Function, args []Value) (Value, *tailCall) {
		o, off := rw(args[0].(PtrV))
		rv, _ := o.cells[off+1].(*Term)
		if rv == nil || rv.cv == 0 {
			in.goPanic("fatal error: sync: RUnlock of unlocked RWMutex")
		}
		in.raceReleaseMerge(g, raceKey{o, off, 1})
		in.setCell(o, off+1, in.tt.Const(32, rv.cv-1))
		return nil, nil
	})
	reg("(*sync.RWMutex).RLocker", nil)
	delete(intrinsics, "(*sync.RWMutex).RLocker")
	// WaitGroup: counter in cell 0 (noCopy has zero cells)
	reg("(*sync.WaitGroup).Add", func(in *Interp, g *Goroutine, fn *ssa.Function, args []Value) (Value, *tailCall) {
		p := args[0].(PtrV)
		d := in.concInt(args[1], "WaitGroup.Add")
		c := wgCell(in, p)
		cur, _ := p.obj.cells[c].(*Term)
		n := int64(0)
		if cur != nil && cur.w == 64 {
			n = cur.SVal()
		}
		n += int64(d)
		if n < 0 {
			in.goPanic("sync: negative WaitGroup counter")
		}
		if d < 0 {
			in.raceReleaseMerge(g, raceKey{p.obj, c, 0})
		}
		in.setCell(p.obj, c, in.tt.Const(64, uint64(n)))
		return nil, nil
	})
	reg("(*sync.WaitGroup).Done", func(in *Interp, g *Goroutine, fn *ssa.Function, args []Value) (Value, *tailCall) {
		p := args[0].(PtrV)
		c := wgCell(in, p)
		cur, _ := p.obj.cells[c].(*Term)
		n := int64(0)
		if cur != nil && cur.w == 64 {
			n = cur.SVal()
		}
		n--
		if n < 0 {
			in.goPanic("sync: negative WaitGroup counter")
		}
		in.raceReleaseMerge(g, raceKey{p.obj, c, 0})
		in.setCell(p.obj, c, in.tt.Const(64, uint64(n)))
		return nil, nil
	})
	reg("(*sync.WaitGroup).Wait", func(in *Interp, g *Goroutine, fn *ssa.Function, args []Value) (Value, *tailCall) {
		p := args[0].(PtrV)
		c := wgCell(in, p)
		cur, _ := p.obj.cells[c].(*Term)
		if cur != nil && cur.w == 64 && cur.cv != 0 {
			obj := p.obj
			in.block(g, nil, "WaitGroup.Wait", func() bool {
				t, _ := obj.cells[c].(*Term)
				return t == nil || t.w != 64 || t.cv == 0
			})
			return nil, nil
		}
		in.raceAcquire(g, raceKey{p.obj, c, 0})
		return nil, nil
	})
	reg("(*sync.WaitGroup).Go", func(in *Interp, g *Goroutine, fn *ssa.Function, args []Value) (Value, *tailCall) {
		in.noSpec("WaitGroup.Go")
		p := args[0].(PtrV)
		c := wgCell(in, p)
		cur, _ := p.obj.cells[c].(*Term)
		n := int64(0)
		if cur != nil && cur.w == 64 {
			n = cur.SVal()
		}
		in.setCell(p.obj, c, in.tt.Const(64, uint64(n+1)))
		f := args[1].(*FuncV)
		obj := p.obj
		wrapper := &FuncV{native: func(in *Interp, _ []Value) (Value, bool) { return nil, true }}
		_ = wrapper
		ng := in.spawnWithDone(f, nil, func() {
			t, _ := obj.cells[c].(*Term)
			in.raceReleaseMerge(in.cur, raceKey{obj, c, 0})
			in.setCell(obj, c, in.tt.Const(64, t.cv-1))
		})
		_ = ng
		return nil, nil
	})
	reg("(*sync.Once).Do", func(in *Interp, g *Goroutine, fn *ssa.Function, args []Value) (Value, *tailCall) {
		p := args[0].(PtrV)
		st, _ := p.obj.cells[p.off].(*Term)
		// state: 0 not run, 2 f is running (other callers wait, as in the real sync.Once), 1 done
		if st != nil && st.IsConst() && st.cv == 2 {
			obj, off := p.obj, p.off
			in.block(g, nil, "Once.Do", func() bool {
				t, _ := obj.cells[off].(*Term)
				return t == nil || t.cv != 2
			})
			return nil, nil
		}
		if st != nil && st.IsConst() && st.cv != 0 {
			// the completion of f happens before any Do returns
			in.raceAcquire(g, raceKey{p.obj, p.off, 3})
			return nil, nil
		}
		w := uint8(32)
		if st != nil {
			w = st.w
		}
		in.setCell(p.obj, p.off, in.tt.Const(w, 2))
		obj, off := p.obj, p.off
		return nil, &tailCall{fn: args[1].(*FuncV), done: func() {
			in.raceRelease(in.cur, raceKey{obj, off, 3})
			in.setCell(obj, off, in.tt.Const(w, 1))
		}}
	})
	reg("(*sync.Pool).Get", func(in *Interp, g *Goroutine, fn *ssa.Function, args []Value) (Value, *tailCall) {
		p := args[0].(PtrV)
		// New is the last field
		st := fn.Signature.Recv().Type().(*types.Pointer).Elem().Underlying().(*types.Struct)
		off := in.fieldOff(st, st.NumFields()-1)
		nf, _ := p.obj.cells[p.off+off].(*FuncV)
		if nf == nil {
			return IfaceV{}, nil
		}
		return nil, &tailCall{fn: nf}
	})
	reg("(*sync.Pool).Put", func(in *Interp, g *Goroutine, fn *ssa.Function, args []Value) (Value, *tailCall) { return nil, nil })
	reg("runtime.Gosched", func(in *Interp, g *Goroutine, fn *ssa.Function, args []Value) (Value, *tailCall) { return nil, nil })
	reg("runtime.KeepAlive", func(in *Interp, g *Goroutine, fn *ssa.Function, args []Value) (Value, *tailCall) { return nil, nil })
	reg("runtime.SetFinalizer", func(in *Interp, g *Goroutine, fn *ssa.Function, args []Value) (Value, *tailCall) { return nil, nil })
	reg("internal/abi.NoEscape", func(in *Interp, g *Goroutine, fn *ssa.Function, args []Value) (Value, *tailCall) { return args[0], nil })
	reg("internal/abi.Escape", func(in *Interp, g *Goroutine, fn *ssa.Function, args []Value) (Value, *tailCall) { return args[0], nil })
	reg("internal/race.Enabled", nil)
	delete(intrinsics, "internal/race.Enabled")

	// ----- sync/atomic base functions -----
	for _, ty := range []string{"Int32", "Int64", "Uint32", "Uint64", "Uintptr"} {
		ty := ty
		reg("sync/atomic.Load"+ty, func(in *Interp, g *Goroutine, fn *ssa.Function, args []Value) (Value, *tailCall) {
			p := args[0].(PtrV)
			return in.load(p, fn.Signature.Results().At(0).Type()), nil
		})
		reg("sync/atomic.Store"+ty, func(in *Interp, g *Goroutine, fn *ssa.Function, args []Value) (Value, *tailCall) {
			p := args[0].(PtrV)
			in.store(p, fn.Signature.Params().At(1).Type(), args[1])
			return nil, nil
		})
		reg("sync/atomic.Add"+ty, func(in *Interp, g *Goroutine, fn *ssa.Function, args []Value) (Value, *tailCall) {
			p := args[0].(PtrV)
			t := fn.Signature.Params().At(1).Type()
			nv := in.tt.Bin(OpAdd, in.load(p, t).(*Term), args[1].(*Term))
			in.store(p, t, nv)
			return nv, nil
		})
		reg("sync/atomic.Swap"+ty, func(in *Interp, g *Goroutine, fn *ssa.Function, args []Value) (Value, *tailCall) {
			p := args[0].(PtrV)
			t := fn.Signature.Params().At(1).Type()
			old := in.load(p, t)
			in.store(p, t, args[1])
			return old, nil
		})
		reg("sync/atomic.CompareAndSwap"+ty, func(in *Interp, g *Goroutine, fn *ssa.Function, args []Value) (Value, *tailCall) {
			p := args[0].(PtrV)
			t := fn.Signature.Params().At(1).Type()
			old := in.load(p, t).(*Term)
			eq := in.tt.Eq(old, args[1].(*Term))
			in.store(p, t, in.tt.Ite(eq, args[2].(*Term), old))
			return eq, nil
		})
	}
	reg("sync/atomic.LoadPointer", func(in *Interp, g *Goroutine, fn *ssa.Function, args []Value) (Value, *tailCall) {
		p := args[0].(PtrV)
		v := p.obj.cells[p.off]
		if v == nil {
			v = PtrV{}
		}
		return v, nil
	})
	reg("sync/atomic.StorePointer", func(in *Interp, g *Goroutine, fn *ssa.Function, args []Value) (Value, *tailCall) {
		p := args[0].(PtrV)
		in.setCell(p.obj, p.off, args[1])
		return nil, nil
	})
	reg("sync/atomic.SwapPointer", func(in *Interp, g *Goroutine, fn *ssa.Function, args []Value) (Value, *tailCall) {
		p := args[0].(PtrV)
		old := p.obj.cells[p.off]
		in.setCell(p.obj, p.off, args[1])
		return old, nil
	})
	reg("sync/atomic.CompareAndSwapPointer", func(in *Interp, g *Goroutine, fn *ssa.Function, args []Value) (Value, *tailCall) {
		p := args[0].(PtrV)
		old, _ := p.obj.cells[p.off].(PtrV)
		exp := args[1].(PtrV)
		if old.obj == exp.obj && old.off == exp.off {
			in.setCell(p.obj, p.off, args[2])
			return in.tt.True, nil
		}
		return in.tt.False, nil
	})
	reg("(*sync/atomic.Value).Load", func(in *Interp, g *Goroutine, fn *ssa.Function, args []Value) (Value, *tailCall) {
		p := args[0].(PtrV)
		v, ok := p.obj.cells[p.off].(IfaceV)
		if !ok {
			return IfaceV{}, nil
		}
		return v, nil
	})
	reg("(*sync/atomic.Value).Store", func(in *Interp, g *Goroutine, fn *ssa.Function, args []Value) (Value, *tailCall) {
		p := args[0].(PtrV)
		in.setCell(p.obj, p.off, args[1])
		return nil, nil
	})

	// ----- bytealg -----
	reg("internal/bytealg.IndexByteString", func(in *Interp, g *Goroutine, fn *ssa.Function, args []Value) (Value, *tailCall) {
		return in.indexByte(args[0].(*StrV).Terms(in.tt), args[1].(*Term)), nil
	})
	reg("internal/bytealg.IndexByte", func(in *Interp, g *Goroutine, fn *ssa.Function, args []Value) (Value, *tailCall) {
		return in.indexByte(sliceTerms(args[0].(SliceV)), args[1].(*Term)), nil
	})
	reg("internal/bytealg.LastIndexByteString", func(in *Interp, g *Goroutine, fn *ssa.Function, args []Value) (Value, *tailCall) {
		return in.lastIndexByte(args[0].(*StrV).Terms(in.tt), args[1].(*Term)), nil
	})
	reg("internal/bytealg.LastIndexByte", func(in *Interp, g *Goroutine, fn *ssa.Function, args []Value) (Value, *tailCall) {
		return in.lastIndexByte(sliceTerms(args[0].(SliceV)), args[1].(*Term)), nil
	})
	reg("internal/bytealg.CountString", func(in *Interp, g *Goroutine, fn *ssa.Function, args []Value) (Value, *tailCall) {
		return in.countByte(args[0].(*StrV).Terms(in.tt), args[1].(*Term)), nil
	})
	reg("internal/bytealg.Count", func(in *Interp, g *Goroutine, fn *ssa.Function, args []Value) (Value, *tailCall) {
		return in.countByte(sliceTerms(args[0].(SliceV)), args[1].(*Term)), nil
	})
	reg("internal/bytealg.Compare", func(in *Interp, g *Goroutine, fn *ssa.Function, args []Value) (Value, *tailCall) {
		return in.compareBytes(sliceTerms(args[0].(SliceV)), sliceTerms(args[1].(SliceV))), nil
	})
	reg("internal/bytealg.CompareString", func(in *Interp, g *Goroutine, fn *ssa.Function, args []Value) (Value, *tailCall) {
		return in.compareBytes(args[0].(*StrV).Terms(in.tt), args[1].(*StrV).Terms(in.tt)), nil
	})
	reg("internal/bytealg.Equal", func(in *Interp, g *Goroutine, fn *ssa.Function, args []Value) (Value, *tailCall) {
		return in.strEq(strFromTerms(sliceTerms(args[0].(SliceV))), strFromTerms(sliceTerms(args[1].(SliceV)))), nil
	})
	reg("internal/bytealg.IndexString", func(in *Interp, g *Goroutine, fn *ssa.Function, args []Value) (Value, *tailCall) {
		return in.indexSeq(args[0].(*StrV).Terms(in.tt), args[1].(*StrV).Terms(in.tt)), nil
	})
	reg("internal/bytealg.Index", func(in *Interp, g *Goroutine, fn *ssa.Function, args []Value) (Value, *tailCall) {
		return in.indexSeq(sliceTerms(args[0].(SliceV)), sliceTerms(args[1].(SliceV))), nil
	})
	reg("internal/bytealg.MakeNoZero", func(in *Interp, g *Goroutine, fn *ssa.Function, args []Value) (Value, *tailCall) {
		n := in.concretizeInt(args[0].(*Term), 0, 1<<24, "MakeNoZero")
		ts := make([]*Term, n)
		for i := range ts {
			ts[i] = in.tt.Const(8, 0)
		}
		return mkBytes(in, ts), nil
	})
	reg("internal/stringslite.Index", func(in *Interp, g *Goroutine, fn *ssa.Function, args []Value) (Value, *tailCall) {
		return in.indexSeq(args[0].(*StrV).Terms(in.tt), args[1].(*StrV).Terms(in.tt)), nil
	})
	reg("strings.Index", intrinsics["internal/stringslite.Index"])
	reg("strings.Compare", intrinsics["internal/bytealg.CompareString"])
	reg("bytes.Compare", intrinsics["internal/bytealg.Compare"])
	reg("bytes.Index", intrinsics["internal/bytealg.Index"])
	reg("bytes.Equal", intrinsics["internal/bytealg.Equal"])
	reg("strings.LastIndex", func(in *Interp, g *Goroutine, fn *ssa.Function, args []Value) (Value, *tailCall) {
		return in.lastIndexSeq(args[0].(*StrV).Terms(in.tt), args[1].(*StrV).Terms(in.tt)), nil
	})
	reg("bytes.LastIndex", func(in *Interp, g *Goroutine, fn *ssa.Function, args []Value) (Value, *tailCall) {
		return in.lastIndexSeq(sliceTerms(args[0].(SliceV)), sliceTerms(args[1].(SliceV))), nil
	})

	// ----- errors -----
	reg("errors.Is", func(in *Interp, g *Goroutine, fn *ssa.Function, args []Value) (Value, *tailCall) {
		return in.tt.Bool(in.errorsIs(g, args[0], args[1], 0)), nil
	})
	reg("errors.As", func(in *Interp, g *Goroutine, fn *ssa.Function, args []Value) (Value, *tailCall) {
		return in.tt.Bool(in.errorsAs(g, args[0], args[1], 0)), nil
	})
	reg("errors.Unwrap", func(in *Interp, g *Goroutine, fn *ssa.Function, args []Value) (Value, *tailCall) {
		iv, _ := args[0].(IfaceV)
		if iv.typ == nil {
			return IfaceV{}, nil
		}
		if m := in.findMethod(iv.typ, "Unwrap"); m != nil && m.Signature.Results().Len() == 1 {
			if _, isSlice := m.Signature.Results().At(0).Type().Underlying().(*types.Slice); !isSlice {
				return in.callSync(g, &FuncV{fn: m}, []Value{iv.val}), nil
			}
		}
		return IfaceV{}, nil
	})

	// ----- fmt -----
	reg("fmt.Sprintf", func(in *Interp, g *Goroutine, fn *ssa.Function, args []Value) (Value, *tailCall) {
		return in.sprintf(g, args[0].(*StrV), args[1].(SliceV)), nil
	})
	reg("fmt.Errorf", func(in *Interp, g *Goroutine, fn *ssa.Function, args []Value) (Value, *tailCall) {
		return in.errorf(g, args[0].(*StrV), args[1].(SliceV)), nil
	})
	reg("fmt.Sprint", func(in *Interp, g *Goroutine, fn *ssa.Function, args []Value) (Value, *tailCall) {
		return in.sprint(g, args[0].(SliceV), false), nil
	})
	reg("fmt.Sprintln", func(in *Interp, g *Goroutine, fn *ssa.Function, args []Value) (Value, *tailCall) {
		return in.sprint(g, args[0].(SliceV), true), nil
	})
	reg("fmt.Fprintf", func(in *Interp, g *Goroutine, fn *ssa.Function, args []Value) (Value, *tailCall) {
		s := in.sprintf(g, args[1].(*StrV), args[2].(SliceV))
		return in.writeTo(g, args[0], s), nil
	})
	reg("fmt.Fprint", func(in *Interp, g *Goroutine, fn *ssa.Function, args []Value) (Value, *tailCall) {
		return in.writeTo(g, args[0], in.sprint(g, args[1].(SliceV), false)), nil
	})
	reg("fmt.Fprintln", func(in *Interp, g *Goroutine, fn *ssa.Function, args []Value) (Value, *tailCall) {
		return in.writeTo(g, args[0], in.sprint(g, args[1].(SliceV), true)), nil
	})
	reg("fmt.Sscan", func(in *Interp, g *Goroutine, fn *ssa.Function, args []Value) (Value, *tailCall) {
		return in.sscan(g, args[0].(*StrV), in.argsOf(args[1].(SliceV))), nil
	})
	for _, n := range []string{"fmt.Printf", "fmt.Println", "fmt.Print"} {
		reg(n, func(in *Interp, g *Goroutine, fn *ssa.Function, args []Value) (Value, *tailCall) {
			return TupleV{in.ci(0), IfaceV{}}, nil
		})
	}

	reg("reflect.TypeOf", func(in *Interp, g *Goroutine, fn *ssa.Function, args []Value) (Value, *tailCall) {
		iv, _ := args[0].(IfaceV)
		if iv.typ == nil {
			return IfaceV{}, nil
		}
		pkg := in.prog.ImportedPackage("reflect")
		rt := pkg.Type("rtype")
		key := types.TypeString(iv.typ, nil)
		o := in.rtypeObjs[key]
		if o == nil {
			o = &Object{id: -len(in.rtypeObjs) - 1, cells: make([]Value, 1), note: "rtype " + key, host: iv.typ}
			in.rtypeObjs[key] = o
		}
		return IfaceV{typ: types.NewPointer(rt.Type()), val: PtrV{obj: o}}, nil
	})

	reg("crypto/internal/fips140.getIndicator", func(in *Interp, g *Goroutine, fn *ssa.Function, args []Value) (Value, *tailCall) {
		return in.tt.Const(8, 0), nil
	})
	reg("crypto/internal/fips140.setIndicator", func(in *Interp, g *Goroutine, fn *ssa.Function, args []Value) (Value, *tailCall) { return nil, nil })

	reg("(*reflect.rtype).NumField", func(in *Interp, g *Goroutine, fn *ssa.Function, args []Value) (Value, *tailCall) {
		p := args[0].(PtrV)
		if t, ok := p.obj.host.(types.Type); ok {
			if st, ok := t.Underlying().(*types.Struct); ok {
				return in.ci(st.NumFields()), nil
			}
		}
		panic(unsupported("reflect NumField on non-struct"))
	})
	reg("(*reflect.rtype).String", func(in *Interp, g *Goroutine, fn *ssa.Function, args []Value) (Value, *tailCall) {
		p := args[0].(PtrV)
		if t, ok := p.obj.host.(types.Type); ok {
			return concStr(types.TypeString(t, func(p *types.Package) string { return p.Name() })), nil
		}
		panic(unsupported("reflect String"))
	})

	// ----- os / time / misc -----
	reg("os.Getenv", func(in *Interp, g *Goroutine, fn *ssa.Function, args []Value) (Value, *tailCall) {
		return concStr(""), nil
	})
	reg("os.LookupEnv", func(in *Interp, g *Goroutine, fn *ssa.Function, args []Value) (Value, *tailCall) {
		return TupleV{concStr(""), in.tt.False}, nil
	})
	reg("time.Now", func(in *Interp, g *Goroutine, fn *ssa.Function, args []Value) (Value, *tailCall) {
		// a deterministic, strictly increasing clock (2020-01-01 + one second per call); time is
		// made symbolic explicitly by harnesses that quantify over it
		in.clockTicks++
		return AggV{in.tt.Const(64, 0), in.tt.Const(64, uint64(63713433600+in.clockTicks)), PtrV{}}, nil
	})
	reg("time.Sleep", func(in *Interp, g *Goroutine, fn *ssa.Function, args []Value) (Value, *tailCall) { return nil, nil })
	reg("time.Since", func(in *Interp, g *Goroutine, fn *ssa.Function, args []Value) (Value, *tailCall) {
		return in.tt.Const(64, 0), nil
	})
	reg("time.runtimeNano", func(in *Interp, g *Goroutine, fn *ssa.Function, args []Value) (Value, *tailCall) {
		return in.tt.Const(64, 1), nil
	})
	reg("sort.Slice", func(in *Interp, g *Goroutine, fn *ssa.Function, args []Value) (Value, *tailCall) {
		return in.sortSlice(g, fn, args, false)
	})
	reg("sort.SliceStable", func(in *Interp, g *Goroutine, fn *ssa.Function, args []Value) (Value, *tailCall) {
		return in.sortSlice(g, fn, args, true)
	})
	reg("internal/strconv.ParseUint", func(in *Interp, g *Goroutine, fn *ssa.Function, args []Value) (Value, *tailCall) {
		return in.parseIntModel(fn, args, false)
	})
	reg("internal/strconv.ParseInt", func(in *Interp, g *Goroutine, fn *ssa.Function, args []Value) (Value, *tailCall) {
		return in.parseIntModel(fn, args, true)
	})
	reg("internal/strconv.Atoi", func(in *Interp, g *Goroutine, fn *ssa.Function, args []Value) (Value, *tailCall) {
		return in.parseIntModel(fn, []Value{args[0], in.ci(10), in.ci(0)}, true)
	})
	reg("strconv.Itoa", func(in *Interp, g *Goroutine, fn *ssa.Function, args []Value) (Value, *tailCall) {
		return in.fmtInt(args[0].(*Term), true, 10, false), nil
	})
	reg("strconv.FormatInt", func(in *Interp, g *Goroutine, fn *ssa.Function, args []Value) (Value, *tailCall) {
		return in.fmtInt(args[0].(*Term), true, in.concInt(args[1], "FormatInt base"), false), nil
	})
	reg("strconv.FormatUint", func(in *Interp, g *Goroutine, fn *ssa.Function, args []Value) (Value, *tailCall) {
		return in.fmtInt(args[0].(*Term), false, in.concInt(args[1], "FormatUint base"), false), nil
	})
	reg("strconv.Quote", func(in *Interp, g *Goroutine, fn *ssa.Function, args []Value) (Value, *tailCall) {
		s := args[0].(*StrV)
		if s.isSym {
			return in.strConcat(in.strConcat(concStr("\""), s), concStr("\"")), nil
		}
		return concStr(strconv.Quote(s.conc)), nil
	})
}

func wgCell(in *Interp, p PtrV) int {
	return p.off
}

// spawnWithDone starts a goroutine running f and calls done when it returns.
func (in *Interp) spawnWithDone(f *FuncV, args []Value, done func()) *Goroutine {
	in.gseq++
	g := &Goroutine{id: in.gseq}
	in.raceFork(in.cur, g)
	in.gs = append(in.gs, g)
	in.invoke(g, f, args, -1, func(Value) { done(); g.done = len(g.stack) == 0 }, false)
	if len(g.stack) == 0 {
		g.done = true
	}
	return g
}

// ---------- byte sequence helpers ----------

func (in *Interp) indexByte(s []*Term, c *Term) Value {
	res := in.tt.Const(64, ^uint64(0))
	for i := len(s) - 1; i >= 0; i-- {
		res = in.tt.Ite(in.tt.Eq(s[i], c), in.ci(i), res)
	}
	return res
}

func (in *Interp) lastIndexByte(s []*Term, c *Term) Value {
	res := in.tt.Const(64, ^uint64(0))
	for i := 0; i < len(s); i++ {
		res = in.tt.Ite(in.tt.Eq(s[i], c), in.ci(i), res)
	}
	return res
}

func (in *Interp) countByte(s []*Term, c *Term) Value {
	res := in.tt.Const(64, 0)
	for i := range s {
		res = in.tt.Bin(OpAdd, res, in.tt.Ite(in.tt.Eq(s[i], c), in.ci(1), in.ci(0)))
	}
	return res
}

func (in *Interp) compareBytes(a, b []*Term) Value {
	tt := in.tt
	n := min(len(a), len(b))
	var tail *Term
	switch {
	case len(a) < len(b):
		tail = tt.Const(64, ^uint64(0))
	case len(a) > len(b):
		tail = in.ci(1)
	default:
		tail = in.ci(0)
	}
	r := tail
	for i := n - 1; i >= 0; i-- {
		r = tt.Ite(tt.Eq(a[i], b[i]), r, tt.Ite(tt.Cmp(OpUlt, a[i], b[i]), tt.Const(64, ^uint64(0)), in.ci(1)))
	}
	return r
}

func (in *Interp) matchAt(s, sep []*Term, i int) *Term {
	m := in.tt.True
	for j := len(sep) - 1; j >= 0; j-- {
		m = in.tt.And(in.tt.Eq(s[i+j], sep[j]), m)
	}
	return m
}

func (in *Interp) indexSeq(s, sep []*Term) Value {
	res := in.tt.Const(64, ^uint64(0))
	for i := len(s) - len(sep); i >= 0; i-- {
		res = in.tt.Ite(in.matchAt(s, sep, i), in.ci(i), res)
	}
	return res
}

func (in *Interp) lastIndexSeq(s, sep []*Term) Value {
	res := in.tt.Const(64, ^uint64(0))
	for i := 0; i+len(sep) <= len(s); i++ {
		res = in.tt.Ite(in.matchAt(s, sep, i), in.ci(i), res)
	}
	return res
}

// ---------- errors.Is / As ----------

func (in *Interp) findMethod(t types.Type, name string) *ssa.Function {
	ms := in.prog.MethodSets.MethodSet(t)
	for i := 0; i < ms.Len(); i++ {
		sel := ms.At(i)
		if sel.Obj().Name() == name {
			return in.prog.MethodValue(sel)
		}
	}
	return nil
}

func (in *Interp) concBool(v Value, what string) bool {
	t := v.(*Term)
	if t.IsConst() {
		return t.cv == 1
	}
	tf, ff := in.feasible2(t)
	if tf && !ff {
		in.addPC(t)
		return true
	}
	if !tf {
		in.addPC(in.tt.Not(t))
		return false
	}
	if in.decide(2, nil) == 0 {
		in.addPC(t)
		return true
	}
	in.addPC(in.tt.Not(t))
	return false
}

func (in *Interp) errorsIs(g *Goroutine, err, target Value, depth int) bool {
	if depth > 20 {
		return false
	}
	e, _ := err.(IfaceV)
	t, _ := target.(IfaceV)
	if e.typ == nil || t.typ == nil {
		return e.typ == nil && t.typ == nil
	}
	if types.Identical(e.typ, t.typ) && types.Comparable(e.typ) {
		if in.concBool(in.valEq(e.val, t.val), "errors.Is") {
			return true
		}
	}
	if m := in.findMethod(e.typ, "Is"); m != nil && m.Signature.Params().Len() == 1 {
		r := in.callSync(g, &FuncV{fn: m}, []Value{e.val, t})
		if in.concBool(r, "errors.Is method") {
			return true
		}
	}
	if m := in.findMethod(e.typ, "Unwrap"); m != nil && m.Signature.Results().Len() == 1 {
		r := in.callSync(g, &FuncV{fn: m}, []Value{e.val})
		if sl, ok := r.(SliceV); ok {
			for i := 0; i < sl.len; i++ {
				if in.errorsIs(g, sl.obj.cells[sl.off+i], target, depth+1) {
					return true
				}
			}
			return false
		}
		return in.errorsIs(g, r, target, depth+1)
	}
	return false
}

func (in *Interp) errorsAs(g *Goroutine, err, target Value, depth int) bool {
	if depth > 20 {
		return false
	}
	e, _ := err.(IfaceV)
	t, _ := target.(IfaceV)
	if t.typ == nil {
		in.goPanic("errors: target cannot be nil")
	}
	if e.typ == nil {
		return false
	}
	pt, ok := t.typ.Underlying().(*types.Pointer)
	if !ok {
		in.goPanic("errors: target must be a non-nil pointer")
	}
	want := pt.Elem()
	if types.IsInterface(want) {
		if types.Implements(e.typ, want.Underlying().(*types.Interface)) {
			in.store(t.val.(PtrV), want, e)
			return true
		}
	} else if types.Identical(e.typ, want) {
		in.store(t.val.(PtrV), want, e.val)
		return true
	}
	if m := in.findMethod(e.typ, "As"); m != nil && m.Signature.Params().Len() == 1 {
		r := in.callSync(g, &FuncV{fn: m}, []Value{e.val, t})
		if in.concBool(r, "errors.As method") {
			return true
		}
	}
	if m := in.findMethod(e.typ, "Unwrap"); m != nil && m.Signature.Results().Len() == 1 {
		r := in.callSync(g, &FuncV{fn: m}, []Value{e.val})
		if sl, ok := r.(SliceV); ok {
			for i := 0; i < sl.len; i++ {
				if in.errorsAs(g, sl.obj.cells[sl.off+i], target, depth+1) {
					return true
				}
			}
			return false
		}
		return in.errorsAs(g, r, target, depth+1)
	}
	return false
}

// ---------- sort.Slice ----------

func (in *Interp) sortSlice(g *Goroutine, fn *ssa.Function, args []Value, stable bool) (Value, *tailCall) {
	iv := args[0].(IfaceV)
	s := iv.val.(SliceV)
	less := args[1].(*FuncV)
	swap := &FuncV{native: func(in *Interp, a []Value) (Value, bool) {
		i, j := in.concInt(a[0], "swap i"), in.concInt(a[1], "swap j")
		for k := 0; k < s.esz; k++ {
			x, y := s.obj.cells[s.off+i*s.esz+k], s.obj.cells[s.off+j*s.esz+k]
			in.setCell(s.obj, s.off+i*s.esz+k, y)
			in.setCell(s.obj, s.off+j*s.esz+k, x)
		}
		return nil, true
	}}
	pkg := in.prog.ImportedPackage("sort")
	if stable {
		f := pkg.Func("stable_func")
		return nil, &tailCall{fn: &FuncV{fn: f}, args: []Value{AggV{less, swap}, in.ci(s.len)}}
	}
	f := pkg.Func("pdqsort_func")
	lim := 0
	for n := s.len; n > 0; n >>= 1 {
		lim++
	}
	return nil, &tailCall{fn: &FuncV{fn: f}, args: []Value{AggV{less, swap}, in.ci(0), in.ci(s.len), in.ci(lim)}}
}

var _ = fmt.Sprintf
var _ = strings.Join

// parseIntModel is a semantic model of internal/strconv.ParseUint / ParseInt / Atoi for
// base 10 and strings of concrete length < 19 whose bytes may be symbolic.  It forks
// once on "all digits" (and on the sign), instead of once per digit and overflow test
// as the real loop does.  Anything else is declined and the real code is executed.
func (in *Interp) parseIntModel(fn *ssa.Function, args []Value, signed bool) (Value, *tailCall) {
	tt := in.tt
	decline := func() (Value, *tailCall) {
		if fn.Name() == "Atoi" {
			return nil, &tailCall{fn: &FuncV{fn: fn, noIntr: true}, args: args[:1]}
		}
		return nil, &tailCall{fn: &FuncV{fn: fn, noIntr: true}, args: args}
	}
	s := args[0].(*StrV)
	bt, bs := args[1].(*Term), args[2].(*Term)
	if !bt.IsConst() || !bs.IsConst() || bt.SVal() != 10 || !s.isSym || s.Len() > 19 {
		return decline()
	}
	bitSize := int(bs.SVal())
	if bitSize == 0 {
		bitSize = 64
	}
	if bitSize < 1 || bitSize > 64 {
		return decline()
	}
	et := fn.Pkg.Type("Error")
	if et == nil {
		return decline()
	}
	errv := func(name string) Value {
		c := fn.Pkg.Const(name)
		if c == nil {
			panic(unsupported("internal/strconv." + name + " not found"))
		}
		return IfaceV{typ: et.Type(), val: in.constVal(c.Value)}
	}
	zeroRes := func(v *Term, e Value) (Value, *tailCall) { return TupleV{v, e}, nil }
	if s.Len() == 0 {
		return zeroRes(tt.Const(64, 0), errv("ErrSyntax"))
	}
	ts := s.Terms(tt)
	neg := false
	if signed {
		if in.concBool(tt.Eq(ts[0], tt.Const(8, '-')), "ParseInt sign") {
			neg = true
			ts = ts[1:]
		} else if in.concBool(tt.Eq(ts[0], tt.Const(8, '+')), "ParseInt sign") {
			ts = ts[1:]
		}
		if len(ts) == 0 {
			return zeroRes(tt.Const(64, 0), errv("ErrSyntax"))
		}
	}
	allDigits := tt.True
	for _, c := range ts {
		allDigits = tt.And(allDigits, tt.And(tt.Cmp(OpUle, tt.Const(8, '0'), c), tt.Cmp(OpUle, c, tt.Const(8, '9'))))
	}
	if !in.concBool(allDigits, "ParseInt digits") {
		return zeroRes(tt.Const(64, 0), errv("ErrSyntax"))
	}
	n := tt.Const(64, 0)
	pow := uint64(1)
	for i := len(ts) - 1; i >= 0; i-- {
		d := tt.ZExt(tt.Bin(OpSub, ts[i], tt.Const(8, '0')), 64)
		n = tt.Bin(OpAdd, n, tt.Bin(OpMul, d, tt.Const(64, pow)))
		pow *= 10
	}
	// at most 19 digits: < 10^19 < 2^64, no 64-bit unsigned overflow; range checks below
	if !signed {
		if bitSize < 64 {
			maxv := uint64(1)<<uint(bitSize) - 1
			if in.concBool(tt.Cmp(OpUlt, tt.Const(64, maxv), n), "ParseUint range") {
				return zeroRes(tt.Const(64, maxv), errv("ErrRange"))
			}
		}
		return zeroRes(n, IfaceV{})
	}
	{
		cutoff := uint64(1) << uint(bitSize-1)
		if !neg && in.concBool(tt.Cmp(OpUle, tt.Const(64, cutoff), n), "ParseInt range") {
			return zeroRes(tt.Const(64, cutoff-1), errv("ErrRange"))
		}
		if neg && in.concBool(tt.Cmp(OpUlt, tt.Const(64, cutoff), n), "ParseInt range") {
			return zeroRes(tt.Const(64, -cutoff), errv("ErrRange"))
		}
	}
	if neg {
		n = tt.Neg(n)
	}
	return zeroRes(n, IfaceV{})
}

// sscan models fmt.Sscan for space-separated decimal integers and strings.
func (in *Interp) sscan(g *Goroutine, s *StrV, ptrs []Value) Value {
	tt := in.tt
	ts := s.Terms(tt)
	isSpace := func(c *Term) bool {
		sp := tt.Or(tt.Or(tt.Eq(c, tt.Const(8, ' ')), tt.Eq(c, tt.Const(8, '\n'))), tt.Or(tt.Eq(c, tt.Const(8, '\t')), tt.Eq(c, tt.Const(8, '\r'))))
		return in.concBool(sp, "Sscan space")
	}
	pos := 0
	done := 0
	fail := func(msg string) Value { return TupleV{in.ci(done), in.makeError(msg)} }
	spkg := in.prog.ImportedPackage("strconv")
	for _, pv := range ptrs {
		for pos < len(ts) && isSpace(ts[pos]) {
			pos++
		}
		if pos >= len(ts) {
			return fail("unexpected EOF")
		}
		start := pos
		for pos < len(ts) && !isSpace(ts[pos]) {
			pos++
		}
		tok := strFromTerms(ts[start:pos])
		iv, ok := pv.(IfaceV)
		if !ok || iv.typ == nil {
			return fail("can't scan type")
		}
		pt, ok := iv.typ.Underlying().(*types.Pointer)
		if !ok {
			return fail("can't scan type")
		}
		et := pt.Elem()
		w, signed, isInt := widthOf(et)
		switch {
		case isInt && w > 0:
			if tok.Len() > 1 {
				first := tok.At(tt, 0)
				lead := tt.Or(tt.Eq(first, tt.Const(8, '0')), tt.Or(tt.Eq(first, tt.Const(8, '+')), tt.Eq(first, tt.Const(8, '-'))))
				if in.concBool(lead, "Sscan base prefix") {
					if tok.isSym {
						panic(unsupported("fmt.Sscan of a symbolic token with sign or leading zero (base prefixes not modelled)"))
					}
				}
			}
			fname := "ParseUint"
			if signed {
				fname = "ParseInt"
			}
			base := 10
			if !tok.isSym {
				base = 0 // like fmt's %v: accepts 0x, 0o, 0b prefixes
			}
			r := in.callSync(g, &FuncV{fn: spkg.Func(fname)}, []Value{tok, in.ci(base), in.ci(int(w))}).(TupleV)
			if e, _ := r[1].(IfaceV); e.typ != nil {
				return fail("expected integer")
			}
			v := r[0].(*Term)
			in.store(iv.val.(PtrV), et, tt.Extract(v, w))
		case isString(et):
			in.store(iv.val.(PtrV), et, tok)
		default:
			panic(unsupported("fmt.Sscan into " + et.String()))
		}
		done++
	}
	return TupleV{in.ci(done), IfaceV{}}
}

func isString(t types.Type) bool {
	b, ok := t.Underlying().(*types.Basic)
	return ok && b.Kind() == types.String
}

// ---------- sync.Map model (backed by a MapV in the first cell) ----------

func (in *Interp) syncMapOf(p PtrV) *MapV {
	m, _ := p.obj.cells[p.off].(*MapV)
	if m == nil {
		in.gseq++
		m = &MapV{id: in.gseq}
		in.setCell(p.obj, p.off, m)
	}
	return m
}

func init() {
	reg("(*sync.Map).Load", func(in *Interp, g *Goroutine, fn *ssa.Function, args []Value) (Value, *tailCall) {
		v, ok := in.mapGet(in.syncMapOf(args[0].(PtrV)), args[1])
		if !ok {
			return TupleV{IfaceV{}, in.tt.False}, nil
		}
		return TupleV{v, in.tt.True}, nil
	})
	reg("(*sync.Map).Store", func(in *Interp, g *Goroutine, fn *ssa.Function, args []Value) (Value, *tailCall) {
		in.mapSet(in.syncMapOf(args[0].(PtrV)), args[1], args[2])
		return nil, nil
	})
	reg("(*sync.Map).LoadOrStore", func(in *Interp, g *Goroutine, fn *ssa.Function, args []Value) (Value, *tailCall) {
		m := in.syncMapOf(args[0].(PtrV))
		if v, ok := in.mapGet(m, args[1]); ok {
			return TupleV{v, in.tt.True}, nil
		}
		in.mapSet(m, args[1], args[2])
		return TupleV{args[2], in.tt.False}, nil
	})
	reg("(*sync.Map).LoadAndDelete", func(in *Interp, g *Goroutine, fn *ssa.Function, args []Value) (Value, *tailCall) {
		m := in.syncMapOf(args[0].(PtrV))
		v, ok := in.mapGet(m, args[1])
		if !ok {
			return TupleV{IfaceV{}, in.tt.False}, nil
		}
		in.mapDelete(m, args[1])
		return TupleV{v, in.tt.True}, nil
	})
	reg("(*sync.Map).Delete", func(in *Interp, g *Goroutine, fn *ssa.Function, args []Value) (Value, *tailCall) {
		in.mapDelete(in.syncMapOf(args[0].(PtrV)), args[1])
		return nil, nil
	})
	reg("(*sync.Map).Clear", func(in *Interp, g *Goroutine, fn *ssa.Function, args []Value) (Value, *tailCall) {
		m := in.syncMapOf(args[0].(PtrV))
		in.journalMap(m)
		m.entries = nil
		return nil, nil
	})
	reg("(*sync.Map).Range", func(in *Interp, g *Goroutine, fn *ssa.Function, args []Value) (Value, *tailCall) {
		m := in.syncMapOf(args[0].(PtrV))
		f := args[1].(*FuncV)
		for _, e := range append([]mapEntry(nil), m.entries...) {
			r := in.callSync(g, f, []Value{e.key, e.val})
			if !in.concBool(r, "sync.Map.Range callback") {
				break
			}
		}
		return nil, nil
	})
}

func init() {
	// maps.Clone -> runtime clone (linkname): shallow copy
	reg("maps.clone", func(in *Interp, g *Goroutine, fn *ssa.Function, args []Value) (Value, *tailCall) {
		iv := args[0].(IfaceV)
		m, _ := iv.val.(*MapV)
		if m == nil {
			return iv, nil
		}
		in.gseq++
		n := &MapV{id: in.gseq, kt: m.kt, vt: m.vt, entries: append([]mapEntry(nil), m.entries...)}
		return IfaceV{typ: iv.typ, val: n}, nil
	})
}

// ---------- a minimal reflect.Value model (ValueOf / Index / Elem / Kind / String / Len / Int) ----------
// A reflect.Value is kept as its three cells with cell 0 holding IfaceV{static type, value}.

func rvMake(in *Interp, t types.Type, v Value) Value {
	return AggV{IfaceV{typ: t, val: v}, PtrV{}, in.tt.Const(64, 0)}
}

func rvGet(v Value) IfaceV {
	a, ok := v.(AggV)
	if !ok || len(a) == 0 {
		panic(unsupported("reflect.Value of unknown shape"))
	}
	iv, ok := a[0].(IfaceV)
	if !ok {
		panic(unsupported("reflect.Value not created by the engine's reflect model"))
	}
	return iv
}

func reflectKind(t types.Type) uint64 {
	switch u := t.Underlying().(type) {
	case *types.Basic:
		switch u.Kind() {
		case types.Bool:
			return 1
		case types.Int:
			return 2
		case types.Int8:
			return 3
		case types.Int16:
			return 4
		case types.Int32:
			return 5
		case types.Int64:
			return 6
		case types.Uint:
			return 7
		case types.Uint8:
			return 8
		case types.Uint16:
			return 9
		case types.Uint32:
			return 10
		case types.Uint64:
			return 11
		case types.Uintptr:
			return 12
		case types.Float32:
			return 13
		case types.Float64:
			return 14
		case types.String:
			return 24
		case types.UnsafePointer:
			return 26
		}
	case *types.Array:
		return 17
	case *types.Chan:
		return 18
	case *types.Signature:
		return 19
	case *types.Interface:
		return 20
	case *types.Map:
		return 21
	case *types.Pointer:
		return 22
	case *types.Slice:
		return 23
	case *types.Struct:
		return 25
	}
	return 0
}

func init() {
	reg("reflect.ValueOf", func(in *Interp, g *Goroutine, fn *ssa.Function, args []Value) (Value, *tailCall) {
		iv, _ := args[0].(IfaceV)
		if iv.typ == nil {
			return AggV{IfaceV{}, PtrV{}, in.tt.Const(64, 0)}, nil
		}
		return rvMake(in, iv.typ, iv.val), nil
	})
	reg("(reflect.Value).Kind", func(in *Interp, g *Goroutine, fn *ssa.Function, args []Value) (Value, *tailCall) {
		iv := rvGet(args[0])
		if iv.typ == nil {
			return in.tt.Const(64, 0), nil
		}
		return in.tt.Const(64, reflectKind(iv.typ)), nil
	})
	reg("(reflect.Value).IsValid", func(in *Interp, g *Goroutine, fn *ssa.Function, args []Value) (Value, *tailCall) {
		return in.tt.Bool(rvGet(args[0]).typ != nil), nil
	})
	reg("(reflect.Value).Len", func(in *Interp, g *Goroutine, fn *ssa.Function, args []Value) (Value, *tailCall) {
		iv := rvGet(args[0])
		return in.ci(in.lenOf(iv.val)), nil
	})
	reg("(reflect.Value).String", func(in *Interp, g *Goroutine, fn *ssa.Function, args []Value) (Value, *tailCall) {
		iv := rvGet(args[0])
		if s, ok := iv.val.(*StrV); ok {
			return s, nil
		}
		return concStr("<" + iv.typ.String() + " Value>"), nil
	})
	reg("(reflect.Value).Int", func(in *Interp, g *Goroutine, fn *ssa.Function, args []Value) (Value, *tailCall) {
		iv := rvGet(args[0])
		t, ok := iv.val.(*Term)
		if !ok {
			panic(unsupported("reflect.Value.Int on non-int"))
		}
		return in.tt.SExt(t, 64), nil
	})
	reg("(reflect.Value).Index", func(in *Interp, g *Goroutine, fn *ssa.Function, args []Value) (Value, *tailCall) {
		iv := rvGet(args[0])
		i := in.concInt(args[1], "reflect.Value.Index")
		st, ok := iv.typ.Underlying().(*types.Slice)
		if !ok {
			panic(unsupported("reflect.Value.Index on " + iv.typ.String()))
		}
		s := iv.val.(SliceV)
		if i < 0 || i >= s.len {
			in.goPanic("reflect: slice index out of range")
		}
		var ev Value
		if s.esz == 1 {
			ev = s.obj.cells[s.off+i]
		} else {
			a := make(AggV, s.esz)
			copy(a, s.obj.cells[s.off+i*s.esz:])
			ev = a
		}
		return rvMake(in, st.Elem(), ev), nil
	})
	reg("(reflect.Value).Elem", func(in *Interp, g *Goroutine, fn *ssa.Function, args []Value) (Value, *tailCall) {
		iv := rvGet(args[0])
		switch u := iv.typ.Underlying().(type) {
		case *types.Interface:
			inner, _ := iv.val.(IfaceV)
			if inner.typ == nil {
				return AggV{IfaceV{}, PtrV{}, in.tt.Const(64, 0)}, nil
			}
			return rvMake(in, inner.typ, inner.val), nil
		case *types.Pointer:
			p := iv.val.(PtrV)
			if p.obj == nil {
				return AggV{IfaceV{}, PtrV{}, in.tt.Const(64, 0)}, nil
			}
			return rvMake(in, u.Elem(), in.load(p, u.Elem())), nil
		}
		panic(unsupported("reflect.Value.Elem on " + iv.typ.String()))
	})
}

func init() {
	for _, n := range []string{"runtime.GC", "runtime.ReadMemStats", "runtime/debug.FreeOSMemory", "runtime/debug.SetGCPercent", "perkeep.org/internal/osutil.CPUUsage", "perkeep.org/internal/osutil.MemUsage"} {
		reg(n, func(in *Interp, g *Goroutine, fn *ssa.Function, args []Value) (Value, *tailCall) {
			if fn.Signature.Results().Len() == 1 {
				return in.zero(fn.Signature.Results().At(0).Type()), nil
			}
			return nil, nil
		})
	}
}

// maybePreempt makes lock acquisitions scheduling points (when enabled by the harness and
// while the schedule budget lasts): the goroutine may yield to another runnable one first.
func (in *Interp) maybePreempt(g *Goroutine) bool {
	return in.preemptPoint(g, in.preemptLocks)
}

// preemptPoint is a place where the scheduler may switch away from g (a lock acquisition with
// vrt.PreemptAtLocks, or an explicit vrt.Yield at a lower-layer boundary).
func (in *Interp) preemptPoint(g *Goroutine, enabled bool) bool {
	if !enabled || in.specDepth > 0 || in.syncDepth > 0 || (in.preemptBound == 0 && in.schedUsed >= in.schedules) || g.justYielded {
		g.justYielded = false
		return false
	}
	others := false
	for _, o := range in.gs {
		if o != g && !o.done && (!o.blocked || (o.ready != nil && o.ready())) {
			others = true
		}
	}
	if !others {
		return false
	}
	if in.preemptChoice() {
		g.justYielded = true
		g.yielded = true
		in.block(g, nil, "yield", func() bool { return true })
		return true
	}
	return false
}
