package main

// One persistent solver process (z3 -in), terms are defined once at level 0
// via define-fun, every query is push / assert* / check-sat / pop.
// Results are cached on the set of asserted term ids.

import (
	"bufio"
	"fmt"
	"io"
	"os"
	"os/exec"
	"sort"
	"strconv"
	"strings"
	"time"
)

type SatResult int

const (
	Unsat SatResult = iota
	Sat
	Unknown
)

func (r SatResult) String() string { return [...]string{"unsat", "sat", "unknown"}[r] }

type Solver struct {
	tt        *TermTable
	cmd       *exec.Cmd
	in        io.WriteCloser
	out       *bufio.Reader
	cache     map[string]SatResult
	Queries   int
	CacheHits int
	Time      time.Duration
	Errors    []string
	timeoutMs int
	bin       string
	args      []string
	log       io.Writer
	declared  map[int]bool
	slowDir   string
	slowN     int
}

func NewSolver(tt *TermTable, bin string, timeoutMs int) (*Solver, error) {
	s := &Solver{tt: tt, cache: map[string]SatResult{}, timeoutMs: timeoutMs, bin: bin, declared: map[int]bool{}}
	if err := s.start(); err != nil {
		return nil, err
	}
	return s, nil
}

func (s *Solver) start() error {
	var args []string
	switch {
	case strings.Contains(s.bin, "cvc5"):
		args = []string{"--incremental", "--lang=smt2", "--produce-models", fmt.Sprintf("--tlimit-per=%d", s.timeoutMs)}
	default:
		args = []string{"-in", fmt.Sprintf("-t:%d", s.timeoutMs)}
	}
	s.cmd = exec.Command(s.bin, args...)
	in, err := s.cmd.StdinPipe()
	if err != nil {
		return err
	}
	out, err := s.cmd.StdoutPipe()
	if err != nil {
		return err
	}
	s.cmd.Stderr = nil
	if err := s.cmd.Start(); err != nil {
		return err
	}
	s.in = in
	s.out = bufio.NewReaderSize(out, 1<<16)
	s.send("(set-option :produce-models true)\n")
	if strings.Contains(s.bin, "cvc5") {
		s.send("(set-logic ALL)\n")
	}
	for _, t := range s.tt.all {
		t.def = false
	}
	s.declared = map[int]bool{}
	return nil
}

func (s *Solver) Close() {
	if s.cmd != nil {
		s.in.Close()
		s.cmd.Process.Kill()
		s.cmd.Wait()
	}
}

func (s *Solver) send(str string) {
	if s.log != nil {
		io.WriteString(s.log, str)
	}
	io.WriteString(s.in, str)
}

// define makes sure t (and everything below it) is known to the solver.
func (s *Solver) define(t *Term, sb *strings.Builder) {
	if t.def || t.op == OpConst {
		return
	}
	if t.op == OpSym {
		if !s.declared[t.id] {
			fmt.Fprintf(sb, "(declare-const %s %s)\n", t.name, sortStr(t.w))
			s.declared[t.id] = true
		}
		t.def = true
		return
	}
	// iterative post-order to avoid deep recursion
	type fr struct {
		t *Term
		i int
	}
	st := []fr{{t, 0}}
	for len(st) > 0 {
		f := &st[len(st)-1]
		if f.i < len(f.t.args) {
			a := f.t.args[f.i]
			f.i++
			if !a.def && a.op != OpConst {
				if a.op == OpSym {
					s.define(a, sb)
				} else {
					st = append(st, fr{a, 0})
				}
			}
			continue
		}
		if !f.t.def {
			fmt.Fprintf(sb, "(define-fun t%d () %s %s)\n", f.t.id, sortStr(f.t.w), f.t.body())
			f.t.def = true
		}
		st = st[:len(st)-1]
	}
}

func cacheKey(asserts []*Term) string {
	ids := make([]int, 0, len(asserts))
	for _, a := range asserts {
		ids = append(ids, a.id)
	}
	sort.Ints(ids)
	var sb strings.Builder
	last := -1
	for _, id := range ids {
		if id == last {
			continue
		}
		last = id
		sb.WriteString(strconv.Itoa(id))
		sb.WriteByte(',')
	}
	return sb.String()
}

// Check decides satisfiability of the conjunction of asserts.
func (s *Solver) Check(asserts []*Term) SatResult {
	live := asserts[:0:0]
	for _, a := range asserts {
		if a.IsFalse() {
			return Unsat
		}
		if a.IsTrue() {
			continue
		}
		live = append(live, a)
	}
	if len(live) == 0 {
		return Sat
	}
	k := cacheKey(live)
	if r, ok := s.cache[k]; ok {
		s.CacheHits++
		return r
	}
	r, _ := s.run(live, nil)
	s.cache[k] = r
	return r
}

// CheckModel is like Check but also returns values for the given symbols on sat.
func (s *Solver) CheckModel(asserts []*Term, syms []*Term) (SatResult, map[string]uint64) {
	live := asserts[:0:0]
	for _, a := range asserts {
		if a.IsFalse() {
			return Unsat, nil
		}
		if a.IsTrue() {
			continue
		}
		live = append(live, a)
	}
	return s.run(live, syms)
}

func (s *Solver) run(asserts []*Term, syms []*Term) (SatResult, map[string]uint64) {
	t0 := time.Now()
	defer func() { s.Time += time.Since(t0) }()
	s.Queries++
	// one-shot mode: (reset) + the cone of definitions.  z3's incremental
	// (push/pop) core is 10-40x slower than its tactic pipeline on these
	// bit-vector queries, so every query is self-contained.
	script := s.Script(asserts)
	var sb strings.Builder
	sb.WriteString("(reset)\n(set-option :produce-models true)\n")
	sb.WriteString(script)
	s.send(sb.String())
	tq := time.Now()
	line, err := s.readLine()
	if d := time.Since(tq); d > 2*time.Second && s.slowDir != "" {
		s.slowN++
		os.WriteFile(fmt.Sprintf("%s/slow_%d_%s_%dms.smt2", s.slowDir, s.slowN, line, d.Milliseconds()), []byte(script), 0644)
	}
	res := Unknown
	if err != nil {
		s.Errors = append(s.Errors, "solver died: "+err.Error())
		s.restart()
		return Unknown, nil
	}
	switch line {
	case "sat":
		res = Sat
	case "unsat":
		res = Unsat
	case "unknown", "timeout":
		res = Unknown
	default:
		s.Errors = append(s.Errors, line)
		res = Unknown
		if !strings.HasPrefix(line, "(error") {
			s.restart()
			return Unknown, nil
		}
	}
	var model map[string]uint64
	if res == Sat && len(syms) > 0 {
		model = map[string]uint64{}
		inq := map[string]bool{}
		for _, y := range collectSyms(asserts) {
			inq[y.name] = true
		}
		var ask []*Term
		for _, y := range syms {
			if inq[y.name] {
				ask = append(ask, y)
			} else {
				model[y.name] = 0
			}
		}
		for i := 0; i < len(ask); i += 200 {
			j := min(i+200, len(ask))
			var q strings.Builder
			q.WriteString("(get-value (")
			for _, y := range ask[i:j] {
				q.WriteString(y.name)
				q.WriteByte(' ')
			}
			q.WriteString("))\n")
			s.send(q.String())
			txt, err := s.readSexp()
			if err != nil {
				s.Errors = append(s.Errors, "get-value: "+err.Error())
				break
			}
			parseModel(txt, model)
		}
	}
	return res, model
}

func (s *Solver) restart() {
	s.Close()
	if err := s.start(); err != nil {
		panic("cannot restart solver: " + err.Error())
	}
}

func (s *Solver) readLine() (string, error) {
	for {
		l, err := s.out.ReadString('\n')
		if err != nil {
			return "", err
		}
		l = strings.TrimSpace(l)
		if l == "" {
			continue
		}
		return l, nil
	}
}

// readSexp reads one balanced s-expression.
func (s *Solver) readSexp() (string, error) {
	var sb strings.Builder
	depth := 0
	started := false
	for {
		b, err := s.out.ReadByte()
		if err != nil {
			return "", err
		}
		sb.WriteByte(b)
		if b == '(' {
			depth++
			started = true
		} else if b == ')' {
			depth--
			if started && depth == 0 {
				return sb.String(), nil
			}
		}
	}
}

// parseModel parses "((name #x0a) (name2 true) ...)" output.
func parseModel(txt string, m map[string]uint64) {
	txt = strings.TrimSpace(txt)
	toks := strings.FieldsFunc(txt, func(r rune) bool { return r == '(' || r == ')' || r == ' ' || r == '\n' || r == '\t' })
	for i := 0; i+1 < len(toks); {
		name := toks[i]
		val := toks[i+1]
		switch {
		case val == "true":
			m[name] = 1
			i += 2
		case val == "false":
			m[name] = 0
			i += 2
		case strings.HasPrefix(val, "#x"):
			v, _ := strconv.ParseUint(val[2:], 16, 64)
			m[name] = v
			i += 2
		case strings.HasPrefix(val, "#b"):
			v, _ := strconv.ParseUint(val[2:], 2, 64)
			m[name] = v
			i += 2
		case val == "_" && i+3 < len(toks) && strings.HasPrefix(toks[i+2], "bv"):
			v, _ := strconv.ParseUint(toks[i+2][2:], 10, 64)
			m[name] = v
			i += 4
		default:
			i++
		}
	}
}

// Dump writes a self-contained SMT-LIB script for a query (used for the
// second-solver cross check).
func (s *Solver) Script(asserts []*Term) string {
	var sb strings.Builder
	seen := map[int]bool{}
	var order []*Term
	var walk func(t *Term)
	walk = func(t *Term) {
		if seen[t.id] || t.op == OpConst {
			return
		}
		seen[t.id] = true
		for _, a := range t.args {
			walk(a)
		}
		order = append(order, t)
	}
	for _, a := range asserts {
		walk(a)
	}
	for _, t := range order {
		if t.op == OpSym {
			fmt.Fprintf(&sb, "(declare-const %s %s)\n", t.name, sortStr(t.w))
		} else {
			fmt.Fprintf(&sb, "(define-fun t%d () %s %s)\n", t.id, sortStr(t.w), t.body())
		}
	}
	for _, a := range asserts {
		fmt.Fprintf(&sb, "(assert %s)\n", a.ref())
	}
	sb.WriteString("(check-sat)\n")
	return sb.String()
}
