package main

import (
	"fmt"
	"go/types"
	"strings"

	"golang.org/x/tools/go/ssa"
)

func (in *Interp) lenOf(v Value) int {
	switch x := v.(type) {
	case *StrV:
		return x.Len()
	case SliceV:
		return x.len
	case *MapV:
		if x == nil {
			return 0
		}
		return len(x.entries)
	case *ChanV:
		if x == nil {
			return 0
		}
		return len(x.buf)
	case PtrV:
		return -1
	case nil:
		return 0
	}
	panic(unsupported(fmt.Sprintf("len of %T", v)))
}

func (in *Interp) ci(n int) *Term { return in.tt.Const(64, uint64(int64(n))) }

func (in *Interp) callBuiltin(g *Goroutine, name string, args []Value, c *ssa.CallCommon) Value {
	tt := in.tt
	switch name {
	case "len":
		if p, ok := args[0].(PtrV); ok {
			_ = p
			at := c.Args[0].Type().Underlying().(*types.Pointer).Elem().Underlying().(*types.Array)
			return in.ci(int(at.Len()))
		}
		if a, ok := args[0].(AggV); ok {
			at := c.Args[0].Type().Underlying().(*types.Array)
			_ = a
			return in.ci(int(at.Len()))
		}
		return in.ci(in.lenOf(args[0]))
	case "cap":
		switch x := args[0].(type) {
		case SliceV:
			return in.ci(x.cap)
		case *ChanV:
			if x == nil {
				return in.ci(0)
			}
			return in.ci(x.cap)
		case PtrV:
			at := c.Args[0].Type().Underlying().(*types.Pointer).Elem().Underlying().(*types.Array)
			return in.ci(int(at.Len()))
		case AggV:
			at := c.Args[0].Type().Underlying().(*types.Array)
			return in.ci(int(at.Len()))
		}
	case "append":
		s, _ := args[0].(SliceV)
		var et types.Type
		if c != nil {
			et = c.Args[0].Type().Underlying().(*types.Slice).Elem()
		}
		return in.appendSlice(s, args[1], et)
	case "copy":
		dst := args[0].(SliceV)
		n := 0
		switch src := args[1].(type) {
		case SliceV:
			n = min(dst.len, src.len)
			// handle overlap: copy via temp
			tmp := make([]Value, n*dst.esz)
			if n > 0 {
				copy(tmp, src.obj.cells[src.off:src.off+n*src.esz])
			}
			for i, v := range tmp {
				in.setCell(dst.obj, dst.off+i, v)
			}
		case *StrV:
			n = min(dst.len, src.Len())
			for i := 0; i < n; i++ {
				in.setCell(dst.obj, dst.off+i, src.At(tt, i))
			}
		}
		return in.ci(n)
	case "delete":
		m, _ := args[0].(*MapV)
		if ins := in.curInstr(g); ins != nil {
			in.raceMap(g, m, true, ins)
		}
		in.mapDelete(m, args[1])
		return nil
	case "close":
		if ch := args[0].(*ChanV); ch != nil && in.raceActive(g) {
			in.chanMeta(ch).closeVC = g.vc.clone()
			g.tick()
		}
		in.chanClose(args[0].(*ChanV))
		return nil
	case "panic":
		msg := in.panicMsg(g, args[0])
		panic(goPanicSig{&panicState{val: args[0], msg: msg}})
	case "recover":
		// valid only when called directly by a deferred function during panicking
		if g.panic != nil && !g.panic.recovered {
			fr := g.top()
			if fr != nil && fr.isDefer {
				g.panic.recovered = true
				return g.panic.val
			}
		}
		return IfaceV{}
	case "print", "println":
		return nil
	case "min", "max":
		res := args[0]
		for _, a := range args[1:] {
			x, y := res.(*Term), a.(*Term)
			_, signed, _ := widthOf(c.Args[0].Type())
			var lt *Term
			if signed {
				lt = tt.Cmp(OpSlt, y, x)
			} else {
				lt = tt.Cmp(OpUlt, y, x)
			}
			if name == "max" {
				if signed {
					lt = tt.Cmp(OpSlt, x, y)
				} else {
					lt = tt.Cmp(OpUlt, x, y)
				}
			}
			res = tt.Ite(lt, y, x)
		}
		return res
	case "clear":
		switch x := args[0].(type) {
		case *MapV:
			if x != nil {
				in.journalMap(x)
				x.entries = nil
			}
		case SliceV:
			et := c.Args[0].Type().Underlying().(*types.Slice).Elem()
			z := make([]Value, x.esz)
			for i := 0; i < x.len; i++ {
				in.fillZero(z, et)
				for k, v := range z {
					in.setCell(x.obj, x.off+i*x.esz+k, v)
				}
			}
		}
		return nil
	case "SliceData":
		s := args[0].(SliceV)
		if s.obj == nil {
			return PtrV{}
		}
		return PtrV{obj: s.obj, off: s.off}
	case "String":
		p := args[0].(PtrV)
		n := in.concretizeInt(args[1].(*Term), 0, 1<<24, "unsafe.String len")
		if n == 0 {
			return concStr("")
		}
		ts := make([]*Term, n)
		for i := range ts {
			ts[i] = p.obj.cells[p.off+i].(*Term)
		}
		return strFromTerms(ts)
	case "StringData":
		s := args[0].(*StrV)
		if s.Len() == 0 {
			return PtrV{}
		}
		return PtrV{obj: mkBytes(in, s.Terms(tt)).obj}
	case "Slice":
		p := args[0].(PtrV)
		n := in.concretizeInt(args[1].(*Term), 0, 1<<24, "unsafe.Slice len")
		if p.obj == nil {
			return SliceV{esz: 1}
		}
		esz := 1
		if c != nil {
			esz = in.cellsOf(c.Args[0].Type().Underlying().(*types.Pointer).Elem())
		}
		return SliceV{obj: p.obj, off: p.off, len: n, cap: n, esz: esz}
	case "ssa:wrapnilchk":
		if p, ok := args[0].(PtrV); ok && p.obj == nil {
			in.goPanic("value method called using nil pointer")
		}
		return args[0]
	}
	panic(unsupported("builtin " + name))
}

func (in *Interp) appendSlice(s SliceV, more Value, et types.Type) Value {
	var add []Value
	esz := s.esz
	switch m := more.(type) {
	case SliceV:
		if esz == 0 {
			esz = m.esz
		}
		if m.len > 0 {
			add = append(add, m.obj.cells[m.off:m.off+m.len*m.esz]...)
		}
	case *StrV:
		esz = 1
		add = make([]Value, m.Len())
		for i := range add {
			add[i] = m.At(in.tt, i)
		}
	case nil:
	default:
		panic(unsupported(fmt.Sprintf("append of %T", more)))
	}
	if esz == 0 && et != nil {
		esz = in.cellsOf(et)
	}
	n := 0
	if esz > 0 {
		n = len(add) / esz
	}
	if n == 0 {
		s.esz = esz
		return s
	}
	if s.len+n <= s.cap && s.obj != nil {
		for i, v := range add {
			in.setCell(s.obj, s.off+s.len*esz+i, v)
		}
		return SliceV{obj: s.obj, off: s.off, len: s.len + n, cap: s.cap, esz: esz}
	}
	newLen := s.len + n
	newCap := s.cap * 2
	if newLen > newCap {
		newCap = newLen
	} else if s.cap >= 256 {
		newCap = s.cap + (s.cap+3*256)/4
		if newCap < newLen {
			newCap = newLen
		}
	}
	o := in.newObject(newCap*esz, "append")
	if s.len > 0 {
		copy(o.cells, s.obj.cells[s.off:s.off+s.len*esz])
	}
	copy(o.cells[s.len*esz:], add)
	// zero the tail
	if et != nil && newCap > newLen {
		z := make([]Value, esz)
		in.fillZero(z, et)
		for i := newLen; i < newCap; i++ {
			copy(o.cells[i*esz:(i+1)*esz], z)
		}
	} else if newCap > newLen && esz == 1 && len(add) > 0 {
		if t, ok := add[0].(*Term); ok {
			z := in.tt.Const(t.w, 0)
			if t.w == 0 {
				z = in.tt.False
			}
			for i := newLen; i < newCap; i++ {
				o.cells[i] = z
			}
		}
	}
	return SliceV{obj: o, off: 0, len: newLen, cap: newCap, esz: esz}
}

// ---------- errors and panic messages ----------

// makeError builds a value of type error whose Error() returns msg, using the
// program's own *errors.errorString type.
func (in *Interp) makeError(msg string) Value {
	return in.makeErrorStr(concStr(msg))
}

func (in *Interp) makeErrorStr(msg *StrV) Value {
	pkg := in.prog.ImportedPackage("errors")
	if pkg == nil {
		panic(unsupported("package errors not loaded"))
	}
	t := pkg.Type("errorString")
	if t == nil {
		panic(unsupported("errors.errorString not found"))
	}
	o := in.allocType(t.Type(), "errorString")
	o.cells[0] = msg
	return IfaceV{typ: types.NewPointer(t.Type()), val: PtrV{obj: o}}
}

// errorText returns the text of an error/Stringer/string value if it can be
// computed, running Error()/String() methods through the interpreter.
func (in *Interp) panicMsg(g *Goroutine, v Value) string {
	s := in.fmtValue(g, v, 'v')
	if s.isSym {
		return "<symbolic message>"
	}
	return s.conc
}

// ---------- package initialisation ----------

var skipInitPkgs = map[string]bool{}

func (in *Interp) initPackage(p *ssa.Package) {
	if in.pkgInit[p] {
		return
	}
	in.pkgInit[p] = true
	if in.journalOn {
		in.journalUndo(func() { delete(in.pkgInit, p) })
	}
	fn := p.Func("init")
	if fn == nil || fn.Blocks == nil {
		return
	}
	if in.cur == nil {
		return
	}
	// run synchronously in a scratch goroutine so that failures are contained
	sg := &Goroutine{id: -1}
	saved := in.cur
	savedSpec := in.specDepth
	savedBudget := in.specBudget
	in.specDepth = 0
	func() {
		defer func() {
			in.cur = saved
			in.specDepth = savedSpec
			in.specBudget = savedBudget
			if r := recover(); r != nil {
				switch e := r.(type) {
				case unsupportedErr:
					in.note("init of " + p.Pkg.Path() + " stopped early: " + e.msg)
				case goPanicSig:
					in.note("init of " + p.Pkg.Path() + " panicked: " + e.ps.msg)
				case pathEnd:
					in.note("init of " + p.Pkg.Path() + " ended: " + e.kind + " " + e.msg)
				default:
					panic(r)
				}
			}
		}()
		in.cur = sg
		in.invoke(sg, &FuncV{fn: fn}, nil, -1, nil, false)
		for len(sg.stack) > 0 {
			if sg.blocked {
				panic(unsupported("init blocked"))
			}
			in.step(sg)
		}
	}()
}

func pkgPathOf(fn *ssa.Function) string {
	if fn.Pkg != nil {
		return fn.Pkg.Pkg.Path()
	}
	if o := fn.Object(); o != nil && o.Pkg() != nil {
		return o.Pkg().Path()
	}
	if fn.Origin() != nil && fn.Origin().Pkg != nil {
		return fn.Origin().Pkg.Pkg.Path()
	}
	return ""
}

var _ = strings.HasPrefix
