package main

import (
	"fmt"
	"os"
	"runtime"
	"go/constant"
	"go/token"
	"go/types"
	"strings"

	"golang.org/x/tools/go/ssa"
)

type fnInfo struct {
	defBlk []*ssa.BasicBlock // defining block per register (nil for params/free vars)
	idx   map[ssa.Value]int
	n     int
	ipdom map[*ssa.BasicBlock]*ssa.BasicBlock // nil entry => exit
	hasPD bool
}

type deferred struct {
	fn   *FuncV
	args []Value
}

type Frame struct {
	fn      *ssa.Function
	info    *fnInfo
	block   *ssa.BasicBlock
	prev    *ssa.BasicBlock
	pc      int
	regs    []Value
	defers  []deferred
	retReg  int // register in caller receiving the result; -1 none
	caller  *Frame
	isDefer bool // frame is a deferred call run during panic unwinding or RunDefers
	// for native continuation after return
	onRet      func(res Value)
	unwindCnt  map[ssa.Instruction]int
	recovered  bool
	panicOwner bool
	pendRet    Value
	hasPendRet bool
}

type panicState struct {
	stack     []string
	val       Value
	msg       string
	recovered bool
	runtime   bool
}

type Goroutine struct {
	id      int
	stack   []*Frame
	done    bool
	blocked bool
	waitMsg string
	panic   *panicState
	// wake-up predicate re-evaluated by scheduler
	ready  func() bool
	isMain bool
	result Value
	justYielded bool
	yielded     bool
	vc          vclock
	vi          int // index of this goroutine in vector clocks
}

type Violation struct {
	Kind      string   `json:"kind"` // assert | panic | deadlock
	Msg       string   `json:"msg"`
	Mechanism bool     `json:"mechanism"`
	Inputs    []Input  `json:"inputs"`
	Decisions []int    `json:"decisions"`
	Where     string   `json:"where"`
	Stack     []string `json:"stack,omitempty"`
}

type Input struct {
	Kind  string `json:"kind"` // sym | choice
	Name  string `json:"name,omitempty"`
	W     int    `json:"w,omitempty"`
	Val   uint64 `json:"val"`
	Src   string `json:"src"` // vrt | engine
	Label string `json:"label,omitempty"`
}

type inputRec struct {
	kind  string
	sym   *Term
	val   int
	src   string
	label string
}

// signals raised with Go panics inside the interpreter
type pathEnd struct {
	kind string // ok | infeasible | unwind | budget | unsupported | violation | assumefalse
	msg  string
}
type mergeAbort struct{ why string }
type goPanicSig struct{ ps *panicState }

type Interp struct {
	prog *ssa.Program
	tt   *TermTable
	sol  *Solver

	sizeCache map[types.Type]int
	infos     map[*ssa.Function]*fnInfo
	globals   map[*ssa.Global]*Object
	pkgInit   map[*ssa.Package]bool
	objSeq    int

	journal   []jEntry
	journalOn bool
	specDepth int
	race      raceState
	tickSeq   int64
	syncDepth int // >0 while a callback is run to completion inside an intrinsic (no preemption there)
	// preemption-bounded scheduling (vrt.Preemptions): at most preemptBound involuntary switches
	preemptBound, preemptUsed int
	// assumptions made inside the speculative arms being executed (re-added, guarded by the
	// arm's condition, when the arms are merged)
	specAssumes []*Term

	// per-path state
	pc        []*Term
	gs        []*Goroutine
	cur       *Goroutine
	prefix    []int
	pos       int
	taken     []int
	symSeq    int
	inputs    []inputRec
	steps     int64
	covered   map[string]bool
	asserts   int
	mergeFail map[ssa.Instruction]int
	expectPanic bool
	stubs     map[string]*FuncV
	gseq      int

	// config
	unwind     int
	maxLen     int
	stepBudget int64
	mergeBudget int
	tier       int
	noMerge    bool
	schedules  int
	schedUsed  int
	verbose    bool

	// exploration
	work  [][]int
	stats *Stats

	specBudget int64
	specFrame  *Frame
	rangeHints map[*Term][2]int64
	gwaits     map[*Goroutine]*gwait
	lastClock  *Term
	clockTicks int64
	rtypeObjs  map[string]*Object
	concrete   []Input
	concreteMode bool
	concPos    int
	concChoice int
	usedStubs  bool
	preemptLocks bool
	preinitNotes []string
	model      map[string]uint64 // a model of in.pc, or nil
	modelMemo  map[int]uint64
	pathNotes  []string
}

type Stats struct {
	Paths        int            `json:"paths"`
	PathsOK      int            `json:"paths_ok"`
	Infeasible   int            `json:"paths_infeasible"`
	UnwindFail   int            `json:"unwind_failures"`
	BudgetFail   int            `json:"budget_failures"`
	Unsupported  map[string]int `json:"unsupported"`
	Steps        int64          `json:"ssa_instructions"`
	Asserts      int            `json:"assert_queries"`
	AssertsHeld  int            `json:"asserts_discharged"`
	Unknown      int            `json:"solver_unknown"`
	Merges       int            `json:"merges"`
	MergeAborts  int            `json:"merge_aborts"`
	Forks        int            `json:"forks"`
	Cover        map[string]int `json:"cover"`
	Violations   []Violation    `json:"violations"`
	Functions    map[string]int `json:"-"`
	AssumeFalse  int            `json:"paths_assume_false"`
	SymBitsAtAssert int         `json:"max_symbolic_bits_at_assert"`
	Samples      []string       `json:"samples"`
}

func NewInterp(prog *ssa.Program, tt *TermTable, sol *Solver) *Interp {
	return &Interp{prog: prog, tt: tt, sol: sol,
		sizeCache: map[types.Type]int{}, infos: map[*ssa.Function]*fnInfo{},
		globals: map[*ssa.Global]*Object{}, pkgInit: map[*ssa.Package]bool{},
		unwind: 64, maxLen: 64, stepBudget: 20_000_000, mergeBudget: 4000, schedules: 1,
		stats: &Stats{Unsupported: map[string]int{}, Cover: map[string]int{}, Functions: map[string]int{}},
		stubs: map[string]*FuncV{}, rangeHints: map[*Term][2]int64{}, rtypeObjs: map[string]*Object{},
	}
}

// ---------- function info ----------

func (in *Interp) info(fn *ssa.Function) *fnInfo {
	if fi, ok := in.infos[fn]; ok {
		return fi
	}
	fi := &fnInfo{idx: map[ssa.Value]int{}}
	n := 0
	for _, p := range fn.Params {
		fi.idx[p] = n
		n++
	}
	for _, p := range fn.FreeVars {
		fi.idx[p] = n
		n++
	}
	fi.defBlk = make([]*ssa.BasicBlock, n)
	for _, b := range fn.Blocks {
		for _, ins := range b.Instrs {
			if v, ok := ins.(ssa.Value); ok {
				fi.idx[v] = n
				fi.defBlk = append(fi.defBlk, b)
				n++
			}
		}
	}
	fi.n = n
	in.infos[fn] = fi
	return fi
}

// post-dominators (simple iterative algorithm), computed on demand.
func (in *Interp) ipdomOf(fn *ssa.Function, b *ssa.BasicBlock) (*ssa.BasicBlock, bool) {
	fi := in.info(fn)
	if !fi.hasPD {
		fi.hasPD = true
		fi.ipdom = computeIPDom(fn)
	}
	j, ok := fi.ipdom[b]
	return j, ok
}

func computeIPDom(fn *ssa.Function) map[*ssa.BasicBlock]*ssa.BasicBlock {
	n := len(fn.Blocks)
	// node n = virtual exit
	exit := n
	succs := make([][]int, n+1)
	for _, b := range fn.Blocks {
		if len(b.Succs) == 0 {
			succs[b.Index] = []int{exit}
		} else {
			for _, s := range b.Succs {
				succs[b.Index] = append(succs[b.Index], s.Index)
			}
		}
	}
	// pdom sets as bitsets
	words := (n + 1 + 63) / 64
	full := make([]uint64, words)
	for i := 0; i <= n; i++ {
		full[i/64] |= 1 << (uint(i) % 64)
	}
	pd := make([][]uint64, n+1)
	for i := 0; i <= n; i++ {
		pd[i] = make([]uint64, words)
		copy(pd[i], full)
	}
	for i := range pd[exit] {
		pd[exit][i] = 0
	}
	pd[exit][exit/64] |= 1 << (uint(exit) % 64)
	changed := true
	tmp := make([]uint64, words)
	for changed {
		changed = false
		for i := n - 1; i >= 0; i-- {
			copy(tmp, full)
			for _, s := range succs[i] {
				for w := range tmp {
					tmp[w] &= pd[s][w]
				}
			}
			tmp[i/64] |= 1 << (uint(i) % 64)
			for w := range tmp {
				if tmp[w] != pd[i][w] {
					changed = true
					copy(pd[i], tmp)
					break
				}
			}
		}
	}
	count := func(s []uint64) int {
		c := 0
		for _, w := range s {
			for ; w != 0; w &= w - 1 {
				c++
			}
		}
		return c
	}
	res := map[*ssa.BasicBlock]*ssa.BasicBlock{}
	for i := 0; i < n; i++ {
		// ipdom = the strict post-dominator with the largest pdom set size == count(pd[i])-1
		want := count(pd[i]) - 1
		found := false
		for j := 0; j <= n; j++ {
			if j == i || pd[i][j/64]&(1<<(uint(j)%64)) == 0 {
				continue
			}
			if count(pd[j]) == want {
				if j == exit {
					res[fn.Blocks[i]] = nil
				} else {
					res[fn.Blocks[i]] = fn.Blocks[j]
				}
				found = true
				break
			}
		}
		_ = found
	}
	return res
}

// ---------- operand access ----------

func (in *Interp) get(fr *Frame, v ssa.Value) Value {
	switch x := v.(type) {
	case *ssa.Const:
		return in.constVal(x)
	case *ssa.Global:
		return PtrV{obj: in.globalObj(x)}
	case *ssa.Function:
		return &FuncV{fn: x}
	case *ssa.Builtin:
		return &FuncV{builtin: x.Name()}
	}
	i, ok := fr.info.idx[v]
	if !ok {
		panic(unsupported(fmt.Sprintf("unknown value %s in %s", v.Name(), fr.fn)))
	}
	return fr.regs[i]
}

func (in *Interp) set(fr *Frame, v ssa.Value, val Value) {
	i, ok := fr.info.idx[v]
	if !ok {
		panic("set: unknown value")
	}
	in.setReg(fr, i, val)
}

func (in *Interp) constVal(c *ssa.Const) Value {
	t := c.Type()
	if c.Value == nil {
		return in.zero(t)
	}
	if tp, ok := t.(*types.TypeParam); ok {
		_ = tp
		panic(unsupported("const of type param"))
	}
	switch b := t.Underlying().(type) {
	case *types.Basic:
		if w, _, ok := widthOf(t); ok {
			if w == 0 {
				return in.tt.Bool(constant.BoolVal(c.Value))
			}
			iv := constant.ToInt(c.Value)
			if u, ok := constant.Uint64Val(iv); ok {
				return in.tt.Const(w, u)
			}
			if s, ok := constant.Int64Val(iv); ok {
				return in.tt.Const(w, uint64(s))
			}
			panic(unsupported("big const"))
		}
		switch b.Kind() {
		case types.String, types.UntypedString:
			return concStr(constant.StringVal(c.Value))
		case types.Float32, types.Float64, types.UntypedFloat:
			f, _ := constant.Float64Val(c.Value)
			return FloatV(f)
		case types.Complex64, types.Complex128:
			return ComplexV(0)
		}
	}
	panic(unsupported("const of type " + t.String()))
}

func (in *Interp) globalObj(g *ssa.Global) *Object {
	if o, ok := in.globals[g]; ok {
		return o
	}
	et := g.Type().(*types.Pointer).Elem()
	o := in.allocType(et, "global "+g.String())
	in.globals[g] = o
	if in.journalOn {
		in.journalUndo(func() { delete(in.globals, g) })
	}
	if g.Pkg != nil && !in.pkgInit[g.Pkg] {
		in.initPackage(g.Pkg)
	}
	return o
}

// ---------- goroutines & frames ----------

func (in *Interp) newFrame(fn *ssa.Function, args []Value, bindings []Value) *Frame {
	if fn.Blocks == nil {
		panic(unsupported("call to function without body: " + fn.String()))
	}
	fi := in.info(fn)
	fr := &Frame{fn: fn, info: fi, regs: make([]Value, fi.n), retReg: -1}
	if len(args) != len(fn.Params) {
		panic(fmt.Sprintf("arg count mismatch calling %s: %d vs %d", fn, len(args), len(fn.Params)))
	}
	copy(fr.regs, args)
	copy(fr.regs[len(fn.Params):], bindings)
	fr.block = fn.Blocks[0]
	if in.stats != nil {
		in.stats.Functions[fn.String()]++
	}
	return fr
}

func (g *Goroutine) top() *Frame {
	if len(g.stack) == 0 {
		return nil
	}
	return g.stack[len(g.stack)-1]
}

func (in *Interp) push(g *Goroutine, fr *Frame) {
	if len(g.stack) > 400 {
		panic(unsupported("stack depth > 400 (runaway recursion?) in " + fr.fn.String()))
	}
	fr.caller = g.top()
	g.stack = append(g.stack, fr)
}

// ---------- panics ----------

func (in *Interp) goPanic(msg string) {
	e := in.makeRuntimeError(msg)
	panic(goPanicSig{&panicState{val: e, msg: msg, runtime: true}})
}

// makeRuntimeError builds an error interface value carrying msg.
func (in *Interp) makeRuntimeError(msg string) Value {
	return in.makeError(msg)
}

// ---------- the step loop ----------

// runGoroutine executes g until it blocks, finishes, or stop() says so.
func (in *Interp) runGoroutine(g *Goroutine, stop func() bool) {
	for !g.done && !g.blocked {
		if stop != nil && stop() {
			return
		}
		in.stepSafe(g)
	}
}

func (in *Interp) stepSafe(g *Goroutine) {
	defer func() {
		if r := recover(); r != nil {
			if sig, ok := r.(goPanicSig); ok {
				if in.specDepth > 0 {
					panic(mergeAbort{"panic in arm"})
				}
				in.startPanic(g, sig.ps)
				return
			}
			panic(r)
		}
	}()
	in.step(g)
}

func (in *Interp) startPanic(g *Goroutine, ps *panicState) {
	g.panic = ps
	if ps.stack == nil {
		for k := len(g.stack) - 1; k >= 0 && len(ps.stack) < 10; k-- {
			f := g.stack[k]
			ps.stack = append(ps.stack, f.fn.String()+" "+in.posOf(f))
		}
	}
	in.unwindPanic(g)
}

// unwindPanic runs deferred calls of the top frames until recovered or the
// goroutine dies.
func (in *Interp) unwindPanic(g *Goroutine) {
	for {
		fr := g.top()
		if fr == nil {
			g.done = true
			// uncaught panic kills the program
			msg := "panic: " + g.panic.msg
			if in.expectPanic {
				panic(pathEnd{kind: "ok", msg: "expected panic"})
			}
			in.reportViolation("panic", msg, false)
			if n := len(in.stats.Violations); n > 0 && g.panic.stack != nil {
				in.stats.Violations[n-1].Stack = g.panic.stack
			}
			panic(pathEnd{kind: "violation", msg: msg})
		}
		if len(fr.defers) > 0 {
			d := fr.defers[len(fr.defers)-1]
			fr.defers = fr.defers[:len(fr.defers)-1]
			ps := g.panic
			owner := fr
			in.invoke(g, d.fn, d.args, -1, func(res Value) {
				// deferred call finished
				if ps.recovered {
					g.panic = nil
					// resume owner at its Recover block
					in.resumeRecovered(g, owner)
					return
				}
				in.unwindPanic(g)
			}, true)
			return
		}
		// pop frame
		g.stack = g.stack[:len(g.stack)-1]
	}
}

func (in *Interp) resumeRecovered(g *Goroutine, fr *Frame) {
	// fr is on top of stack now
	if g.top() != fr {
		panic("resumeRecovered: frame mismatch")
	}
	if fr.fn.Recover != nil {
		fr.prev = fr.block
		fr.block = fr.fn.Recover
		fr.pc = 0
		return
	}
	// return zero values
	var res Value
	rs := fr.fn.Signature.Results()
	switch rs.Len() {
	case 0:
		res = nil
	case 1:
		res = in.zero(rs.At(0).Type())
	default:
		t := make(TupleV, rs.Len())
		for i := range t {
			t[i] = in.zero(rs.At(i).Type())
		}
		res = t
	}
	// run remaining defers first
	fr.block = nil
	in.finishReturn(g, fr, res)
}

type TupleV []Value

// finishReturn pops fr and delivers res to the caller.
func (in *Interp) finishReturn(g *Goroutine, fr *Frame, res Value) {
	g.stack = g.stack[:len(g.stack)-1]
	if fr.onRet != nil {
		fr.onRet(res)
		return
	}
	caller := g.top()
	if caller == nil {
		g.done = true
		g.result = res
		return
	}
	if fr.retReg >= 0 {
		in.setReg(caller, fr.retReg, res)
	}
}

// invoke calls fv with args in goroutine g. retReg is the caller register to
// receive the result (or -1). onRet, if non-nil, replaces normal delivery.
func (in *Interp) invoke(g *Goroutine, fv *FuncV, args []Value, retReg int, onRet func(Value), isDefer bool) {
	if fv == nil {
		in.goPanic("runtime error: invalid memory address or nil pointer dereference (nil func)")
	}
	if fv.native != nil {
		res, _ := fv.native(in, args)
		in.deliver(g, res, retReg, onRet)
		return
	}
	if fv.builtin != "" {
		res := in.callBuiltin(g, fv.builtin, args, nil)
		in.deliver(g, res, retReg, onRet)
		return
	}
	fn := fv.fn
	if fn.Synthetic == "package initializer" && fn.Pkg != nil && len(g.stack) > 0 {
		// dependency initialisers: non-std eagerly, std lazily (on first global access)
		if !isStd(fn.Pkg.Pkg.Path()) {
			in.initPackage(fn.Pkg)
		}
		in.deliver(g, nil, retReg, onRet)
		return
	}
	// stubs and intrinsics
	name := fn.String()
	if st, ok := in.stubs[name]; ok && st.fn != fn {
		in.usedStubs = true
		if st.fn != nil && len(st.fn.Params) == len(args)-1 {
			args = args[1:] // stub of a method written without the receiver
		}
		in.invoke(g, st, args, retReg, onRet, isDefer)
		return
	}
	if pkgPathOf(fn) == "log" && fn.Name() != "init" {
		// logging is never the subject: empty bodies (Fatal*/Panic* end the goroutine with a panic)
		if strings.HasPrefix(fn.Name(), "Fatal") || strings.HasPrefix(fn.Name(), "Panic") {
			in.goPanic("log." + fn.Name())
		}
		var res Value
		if rs := fn.Signature.Results(); rs.Len() == 1 {
			res = in.zero(rs.At(0).Type())
		} else if rs.Len() > 1 {
			t := make(TupleV, rs.Len())
			for k := range t {
				t[k] = in.zero(rs.At(k).Type())
			}
			res = t
		}
		in.deliver(g, res, retReg, onRet)
		return
	}
	if h, ok := intrinsics[name]; ok && !fv.noIntr {
		all := args
		if len(fv.bindings) > 0 {
			all = append(append([]Value{}, fv.bindings...), args...)
		}
		if in.race.on && len(all) > 0 {
			// atomics and sync.Map operations are sequentially consistent synchronisation
			if pp := pkgPathOf(fn); pp == "sync/atomic" || (pp == "sync" && strings.HasPrefix(name, "(*sync.Map).")) {
				if p, isPtr := all[0].(PtrV); isPtr && p.obj != nil && p.sym == nil {
					in.raceAcqRel(g, raceKey{p.obj, p.off, 2})
				}
			}
		}
		res, tail := h(in, g, fn, all)
		if tail != nil {
			if tail.done != nil {
				orig, rr, done := onRet, retReg, tail.done
				in.invoke(g, tail.fn, tail.args, -1, func(v Value) { done(); in.deliver(g, v, rr, orig) }, isDefer)
				return
			}
			in.invoke(g, tail.fn, tail.args, retReg, onRet, isDefer)
			return
		}
		if g.blocked {
			// intrinsic blocked the goroutine; it must be retried. Represent by
			// leaving pc unchanged: handled by caller via in.retry
			return
		}
		in.deliver(g, res, retReg, onRet)
		return
	}
	if fn.Blocks == nil {
		if h := in.lookupIntrinsicByShape(fn); h != nil {
			res, _ := h(in, g, fn, args)
			in.deliver(g, res, retReg, onRet)
			return
		}
		panic(unsupported("call to function without body: " + name))
	}
	fr := in.newFrame(fn, args, fv.bindings)
	fr.retReg = retReg
	fr.onRet = onRet
	fr.isDefer = isDefer
	in.push(g, fr)
}

func (in *Interp) deliver(g *Goroutine, res Value, retReg int, onRet func(Value)) {
	if onRet != nil {
		onRet(res)
		return
	}
	if retReg >= 0 {
		if fr := g.top(); fr != nil {
			in.setReg(fr, retReg, res)
		}
	}
}

// callSync runs fv to completion inside the current goroutine and returns its result.
func (in *Interp) callSync(g *Goroutine, fv *FuncV, args []Value) Value {
	var result Value
	finished := false
	depth := len(g.stack)
	in.syncDepth++
	defer func() { in.syncDepth-- }()
	in.invoke(g, fv, args, -1, func(res Value) { result = res; finished = true }, false)
	for !finished {
		if g.blocked {
			panic(unsupported("blocking inside synchronous callback"))
		}
		if g.done || len(g.stack) < depth {
			panic(unsupported("callSync: goroutine ended"))
		}
		in.step(g)
	}
	return result
}

func (in *Interp) jump(fr *Frame, to *ssa.BasicBlock) {
	from := fr.block
	// evaluate phis
	var idx = -1
	for i, p := range to.Preds {
		if p == from {
			idx = i
			break
		}
	}
	var vals []Value
	var phis []*ssa.Phi
	for _, ins := range to.Instrs {
		phi, ok := ins.(*ssa.Phi)
		if !ok {
			break
		}
		phis = append(phis, phi)
		vals = append(vals, in.get(fr, phi.Edges[idx]))
	}
	for i, phi := range phis {
		in.set(fr, phi, vals[i])
	}
	fr.prev = from
	fr.block = to
	fr.pc = len(phis)
}

func (in *Interp) step(g *Goroutine) {
	fr := g.top()
	if fr == nil {
		g.done = true
		return
	}
	in.steps++
	if in.steps > in.stepBudget {
		panic(pathEnd{kind: "budget", msg: "step budget exceeded"})
	}
	if in.specDepth > 0 {
		in.specBudget--
		if in.specBudget < 0 {
			panic(mergeAbort{"budget"})
		}
	}
	if fr.pc >= len(fr.block.Instrs) {
		panic(fmt.Sprintf("pc beyond block in %s", fr.fn))
	}
	ins := fr.block.Instrs[fr.pc]
	fr.pc++
	if profSteps != nil {
		profSteps[fr.fn.String()]++
	}
	defer func() {
		if r := recover(); r != nil {
			switch e := r.(type) {
			case string:
				r = unsupported("engine: " + e + fmt.Sprintf(" [in %s: %s @ %s]", fr.fn, ins, in.prog.Fset.Position(ins.Pos())))
			case runtime.Error:
				r = unsupported("engine: " + e.Error() + fmt.Sprintf(" [in %s: %s @ %s]", fr.fn, ins, in.prog.Fset.Position(ins.Pos())))
			}
			panic(r)
		}
	}()
	switch x := ins.(type) {
	case *ssa.Alloc:
		et := x.Type().(*types.Pointer).Elem()
		o := in.allocType(et, x.Comment)
		in.set(fr, x, PtrV{obj: o})
	case *ssa.BinOp:
		in.set(fr, x, in.binop(x.Op, in.get(fr, x.X), in.get(fr, x.Y), x.X.Type(), x.Y.Type()))
	case *ssa.UnOp:
		in.unop(g, fr, x)
	case *ssa.Call:
		in.doCall(g, fr, &x.Call, x, false)
	case *ssa.ChangeInterface:
		in.set(fr, x, in.get(fr, x.X))
	case *ssa.ChangeType:
		in.set(fr, x, in.get(fr, x.X))
	case *ssa.Convert:
		in.set(fr, x, in.convert(in.get(fr, x.X), x.X.Type(), x.Type()))
	case *ssa.MultiConvert:
		in.set(fr, x, in.convert(in.get(fr, x.X), x.X.Type(), x.Type()))
	case *ssa.DebugRef:
	case *ssa.Defer:
		fv, args := in.resolveCall(g, fr, &x.Call)
		if in.specDepth > 0 && fr == in.specFrame {
			panic(mergeAbort{"defer in merge frame"})
		}
		fr.defers = append(fr.defers, deferred{fv, args})
	case *ssa.Extract:
		t := in.get(fr, x.Tuple).(TupleV)
		in.set(fr, x, t[x.Index])
	case *ssa.Field:
		in.set(fr, x, in.fieldOf(in.get(fr, x.X), x.X.Type(), x.Field))
	case *ssa.FieldAddr:
		p := in.get(fr, x.X).(PtrV)
		if p.obj == nil {
			in.goPanic("runtime error: invalid memory address or nil pointer dereference")
		}
		st := x.X.Type().Underlying().(*types.Pointer).Elem().Underlying().(*types.Struct)
		p.off += in.fieldOff(st, x.Field)
		in.set(fr, x, p)
	case *ssa.Go:
		if in.specDepth > 0 {
			panic(mergeAbort{"go"})
		}
		fv, args := in.resolveCall(g, fr, &x.Call)
		in.spawn(fv, args)
	case *ssa.If:
		in.doIf(g, fr, x)
	case *ssa.Index:
		in.set(fr, x, in.indexVal(in.get(fr, x.X), x.X.Type(), in.get(fr, x.Index).(*Term), x.Index.Type()))
	case *ssa.IndexAddr:
		in.set(fr, x, in.indexAddr(in.get(fr, x.X), x.X.Type(), in.get(fr, x.Index).(*Term), x.Index.Type()))
	case *ssa.Jump:
		in.jump(fr, fr.block.Succs[0])
	case *ssa.Lookup:
		if m, ok := in.get(fr, x.X).(*MapV); ok {
			in.raceMap(g, m, false, x)
		}
		in.lookup(fr, x)
	case *ssa.MakeChan:
		sz := in.concretizeInt(in.get(fr, x.Size).(*Term), 0, 1024, "chan size")
		in.gseq++
		in.set(fr, x, &ChanV{id: in.gseq, cap: sz, et: x.Type().Underlying().(*types.Chan).Elem()})
	case *ssa.MakeClosure:
		fn := x.Fn.(*ssa.Function)
		bs := make([]Value, len(x.Bindings))
		for i, b := range x.Bindings {
			bs[i] = in.get(fr, b)
		}
		in.set(fr, x, &FuncV{fn: fn, bindings: bs})
	case *ssa.MakeInterface:
		in.set(fr, x, IfaceV{typ: x.X.Type(), val: in.get(fr, x.X)})
	case *ssa.MakeMap:
		mt := x.Type().Underlying().(*types.Map)
		in.gseq++
		in.set(fr, x, &MapV{id: in.gseq, kt: mt.Key(), vt: mt.Elem()})
	case *ssa.MakeSlice:
		st := x.Type().Underlying().(*types.Slice)
		esz := in.cellsOf(st.Elem())
		ln := in.concretizeInt(in.get(fr, x.Len).(*Term), 0, in.maxLenFor(esz), "make len")
		cp := in.concretizeInt(in.get(fr, x.Cap).(*Term), 0, 1<<26, "make cap")
		if cp < ln {
			in.goPanic("runtime error: makeslice: cap out of range")
		}
		o := in.newObject(cp*esz, "makeslice")
		in.fillZero(o.cells, types.NewArray(st.Elem(), int64(cp)))
		in.set(fr, x, SliceV{obj: o, off: 0, len: ln, cap: cp, esz: esz})
	case *ssa.MapUpdate:
		m := in.get(fr, x.Map).(*MapV)
		if m == nil {
			in.goPanic("assignment to entry in nil map")
		}
		in.raceMap(g, m, true, x)
		in.mapSet(m, in.get(fr, x.Key), in.get(fr, x.Value))
	case *ssa.Next:
		in.next(fr, x)
	case *ssa.Panic:
		v := in.get(fr, x.X)
		msg := in.panicMsg(g, v)
		panic(goPanicSig{&panicState{val: v, msg: msg}})
	case *ssa.Phi:
		panic("phi executed directly")
	case *ssa.Range:
		if m, ok := in.get(fr, x.X).(*MapV); ok {
			in.raceMap(g, m, false, x)
		}
		in.set(fr, x, in.makeRange(in.get(fr, x.X), x.X.Type()))
	case *ssa.Return:
		var res Value
		switch len(x.Results) {
		case 0:
		case 1:
			res = in.get(fr, x.Results[0])
		default:
			t := make(TupleV, len(x.Results))
			for i, r := range x.Results {
				t[i] = in.get(fr, r)
			}
			res = t
		}
		in.finishReturn(g, fr, res)
	case *ssa.RunDefers:
		if len(fr.defers) > 0 {
			d := fr.defers[len(fr.defers)-1]
			fr.defers = fr.defers[:len(fr.defers)-1]
			fr.pc-- // re-execute RunDefers afterwards
			in.invoke(g, d.fn, d.args, -1, nil, true)
		}
	case *ssa.Select:
		in.doSelect(g, fr, x)
	case *ssa.Send:
		in.chanSend(g, fr, in.get(fr, x.Chan).(*ChanV), in.get(fr, x.X))
	case *ssa.Slice:
		in.set(fr, x, in.sliceOp(fr, x))
	case *ssa.SliceToArrayPointer:
		s := in.get(fr, x.X).(SliceV)
		at := x.Type().Underlying().(*types.Pointer).Elem().Underlying().(*types.Array)
		if s.len < int(at.Len()) {
			in.goPanic("runtime error: cannot convert slice to array pointer: length too short")
		}
		if s.obj == nil {
			in.set(fr, x, PtrV{})
		} else {
			in.set(fr, x, PtrV{obj: s.obj, off: s.off})
		}
	case *ssa.Store:
		p := in.get(fr, x.Addr).(PtrV)
		in.raceMem(g, p, in.cellsOf(x.Val.Type()), true, x)
		in.store(p, x.Val.Type(), in.get(fr, x.Val))
	case *ssa.TypeAssert:
		in.typeAssert(fr, x)
	default:
		panic(unsupported(fmt.Sprintf("instruction %T", ins)))
	}
}

func (in *Interp) maxLenFor(esz int) int {
	return 1 << 24
}

// ---------- calls ----------

func (in *Interp) resolveCall(g *Goroutine, fr *Frame, c *ssa.CallCommon) (*FuncV, []Value) {
	var args []Value
	var fv *FuncV
	if c.IsInvoke() {
		recv := in.get(fr, c.Value)
		iv, ok := recv.(IfaceV)
		if !ok || iv.typ == nil {
			in.goPanic("runtime error: invalid memory address or nil pointer dereference (nil interface method call " + c.Method.Name() + ")")
		}
		fn := in.lookupMethod(iv.typ, c.Method)
		fv = &FuncV{fn: fn}
		args = append(args, iv.val)
	} else {
		switch f := c.Value.(type) {
		case *ssa.Function:
			fv = &FuncV{fn: f}
		case *ssa.Builtin:
			fv = &FuncV{builtin: f.Name()}
		default:
			v := in.get(fr, c.Value)
			fv, _ = v.(*FuncV)
			if fv == nil {
				in.goPanic("runtime error: invalid memory address or nil pointer dereference (nil func value)")
			}
		}
	}
	for _, a := range c.Args {
		args = append(args, in.get(fr, a))
	}
	return fv, args
}

func (in *Interp) lookupMethod(t types.Type, m *types.Func) *ssa.Function {
	ms := in.prog.MethodSets.MethodSet(t)
	sel := ms.Lookup(m.Pkg(), m.Name())
	if sel == nil {
		panic(unsupported(fmt.Sprintf("method %s not found on %s", m.Name(), t)))
	}
	fn := in.prog.MethodValue(sel)
	if fn == nil {
		panic(unsupported(fmt.Sprintf("no method value %s on %s", m.Name(), t)))
	}
	return fn
}

func (in *Interp) doCall(g *Goroutine, fr *Frame, c *ssa.CallCommon, val ssa.Value, isDefer bool) {
	fv, args := in.resolveCall(g, fr, c)
	reg := -1
	if val != nil {
		reg = fr.info.idx[val]
	}
	if fv.builtin != "" {
		res := in.callBuiltin(g, fv.builtin, args, c)
		if reg >= 0 {
			in.setReg(fr, reg, res)
		}
		return
	}
	pcBefore := fr.pc - 1
	in.invoke(g, fv, args, reg, nil, false)
	if g.blocked && g.top() == fr {
		// blocking intrinsic: retry this call when woken
		fr.pc = pcBefore
	}
}

func (in *Interp) spawn(fv *FuncV, args []Value) *Goroutine {
	in.gseq++
	g := &Goroutine{id: in.gseq}
	in.raceFork(in.cur, g)
	in.gs = append(in.gs, g)
	in.invoke(g, fv, args, -1, nil, false)
	if len(g.stack) == 0 {
		g.done = true
	}
	return g
}

// ---------- If, merging and forking ----------

func (in *Interp) doIf(g *Goroutine, fr *Frame, x *ssa.If) {
	c := in.get(fr, x.Cond).(*Term)
	if c.IsConst() {
		if c.cv == 1 {
			in.jump(fr, fr.block.Succs[0])
		} else {
			in.jump(fr, fr.block.Succs[1])
		}
		return
	}
	// try to merge first: needs no solver query when both arms are short
	triedMerge := false
	if !in.noMerge && in.mergeFail[x] < 2 {
		triedMerge = true
		if in.tryMerge(g, fr, x, c) {
			return
		}
	}
	if in.verbose {
		fmt.Fprintf(os.Stderr, "  feasible2 in %s b%d\n", fr.fn, fr.block.Index)
	}
	tf, ff := in.feasible2(c)
	switch {
	case tf && !ff:
		in.addPC(c)
		in.jump(fr, fr.block.Succs[0])
		return
	case !tf && ff:
		in.addPC(in.tt.Not(c))
		in.jump(fr, fr.block.Succs[1])
		return
	case !tf && !ff:
		panic(pathEnd{kind: "infeasible"})
	}
	if triedMerge && in.specDepth > 0 {
		panic(mergeAbort{"nested merge failed"})
	}
	if in.specDepth > 0 {
		panic(mergeAbort{"fork in arm"})
	}
	// unwinding bound
	if fr.unwindCnt == nil {
		fr.unwindCnt = map[ssa.Instruction]int{}
	}
	fr.unwindCnt[x]++
	if fr.unwindCnt[x] > in.unwind {
		panic(pathEnd{kind: "unwind", msg: fmt.Sprintf("unwinding bound %d exceeded at %s", in.unwind, in.prog.Fset.Position(x.Pos()))})
	}
	d := in.decide(2, nil)
	if d == 0 {
		in.addPC(c)
		in.jump(fr, fr.block.Succs[0])
	} else {
		in.addPC(in.tt.Not(c))
		in.jump(fr, fr.block.Succs[1])
	}
}

// noteAssume records an assumption made while an enclosing speculative arm is running.
func (in *Interp) noteAssume(c *Term) {
	if in.specDepth > 0 {
		n := len(in.specAssumes)
		in.journal = append(in.journal, jEntry{kind: 3, undo: func() { in.specAssumes = in.specAssumes[:n] }})
		in.specAssumes = append(in.specAssumes, c)
	}
}

func (in *Interp) evalModel(c *Term) bool {
	return in.tt.Eval(c, in.model, in.modelMemo) == 1
}

func (in *Interp) addPC(c *Term) {
	if c.IsTrue() {
		return
	}
	if in.model != nil && !in.evalModel(c) {
		in.model = nil
	}
	if in.specDepth > 0 {
		n := len(in.pc)
		in.journal = append(in.journal, jEntry{kind: 3, undo: func() { in.pc = in.pc[:n] }})
	}
	in.pc = append(in.pc, c)
}

// feasible2 reports whether c and !c are satisfiable under the path condition.
func (in *Interp) feasible2(c *Term) (bool, bool) {
	if in.model != nil {
		// the current model of pc witnesses one side for free
		if in.evalModel(c) {
			return true, in.checkSide(in.tt.Not(c))
		}
		return in.checkSide(c), true
	}
	if !in.checkSide(c) {
		return false, true // pc itself assumed satisfiable
	}
	return true, in.checkSide(in.tt.Not(c))
}

// checkSide decides pc && c; on sat it keeps the model as the witness of the current pc
// only when c is subsequently added (handled by addPC's evaluation).
func (in *Interp) checkSide(c *Term) bool {
	q := append(in.pc[:len(in.pc):len(in.pc)], c)
	k := cacheKey(q)
	if r, ok := in.sol.cache[k]; ok {
		in.sol.CacheHits++
		return r != Unsat
	}
	if in.verbose {
		var names []string
		for d := 1; d < 5; d++ {
			if pc, _, line, ok := runtime.Caller(d); ok {
				n := runtime.FuncForPC(pc).Name()
				names = append(names, fmt.Sprintf("%s:%d", n[strings.LastIndex(n, ".")+1:], line))
			}
		}
		fmt.Fprintf(os.Stderr, "  query from %s\n", strings.Join(names, "<"))
	}
	r, model := in.sol.CheckModel(q, collectSyms(q))
	in.sol.cache[k] = r
	if r == Unknown {
		in.stats.Unknown++
	}
	if r == Sat && in.model == nil && in.specDepth == 0 {
		// model satisfies pc (and c): a valid witness of pc
		in.model = model
		in.modelMemo = map[int]uint64{}
	}
	return r != Unsat
}

func (in *Interp) feasible(c *Term) bool {
	if c.IsConst() {
		return c.cv == 1
	}
	if in.model != nil && in.evalModel(c) {
		return true
	}
	return in.checkSide(c)
}

// decide picks one of n options; options for which feas(i) is false are skipped.
func (in *Interp) decide(n int, feas func(i int) bool) int {
	if in.specDepth > 0 {
		panic(mergeAbort{"decision in arm"})
	}
	if in.concreteMode {
		for in.concChoice < len(in.concrete) && in.concrete[in.concChoice].Kind != "choice" {
			in.concChoice++
		}
		if in.concChoice >= len(in.concrete) {
			panic(pathEnd{kind: "unsupported", msg: "concrete trace exhausted (choice)"})
		}
		v := int(in.concrete[in.concChoice].Val)
		in.concChoice++
		in.taken = append(in.taken, v)
		return v
	}
	if in.pos < len(in.prefix) {
		c := in.prefix[in.pos]
		in.pos++
		in.taken = append(in.taken, c)
		if in.verbose {
			var names []string
			for d := 1; d < 5; d++ {
				if pc, _, line, ok := runtime.Caller(d); ok {
					n := runtime.FuncForPC(pc).Name()
					names = append(names, fmt.Sprintf("%s:%d", n[strings.LastIndex(n, ".")+1:], line))
				}
			}
			where := ""
			if f := in.cur.top(); f != nil {
				where = f.fn.String() + " " + in.posOf(f)
			}
			fmt.Fprintf(os.Stderr, "  decide(%d)=%d from %s in %s\n", n, c, strings.Join(names, "<"), where)
		}
		return c
	}
	first := -1
	for i := 0; i < n; i++ {
		if feas != nil && !feas(i) {
			continue
		}
		if first < 0 {
			first = i
			continue
		}
		alt := make([]int, len(in.taken)+1)
		copy(alt, in.taken)
		alt[len(in.taken)] = i
		in.work = append(in.work, alt)
		in.stats.Forks++
	}
	if first < 0 {
		panic(pathEnd{kind: "infeasible"})
	}
	in.pos++
	in.taken = append(in.taken, first)
	return first
}

// tryMerge executes both arms of a symbolic branch up to the immediate
// post-dominator and merges the resulting states with ite.
func (in *Interp) tryMerge(g *Goroutine, fr *Frame, x *ssa.If, c *Term) (ok bool) {
	J, known := in.ipdomOf(fr.fn, fr.block)
	if !known {
		return false
	}
	if len(fr.defers) > 0 && J == nil {
		// arms would run the deferred calls; allowed, snapshot below
	}
	type armResult struct {
		regs    map[int]Value
		cells   map[*Object]map[int]Value
		maps    map[*MapV][]mapEntry
		ret     Value
		hasRet  bool
		prevBlk *ssa.BasicBlock
		assumes []*Term
	}
	B := fr.block
	depth := len(g.stack)
	savedDefers := append([]deferred(nil), fr.defers...)
	savedPrev := fr.prev
	savedPC := fr.pc
	outer := in.specDepth == 0
	if outer {
		in.specBudget = int64(in.mergeBudget)
	}
	prevSpecFrame := in.specFrame
	wasJournal := in.journalOn
	in.journalOn = true
	in.specDepth++
	in.specFrame = fr
	mark := len(in.journal)
	pcLen := len(in.pc)
	savedModel, savedMemo := in.model, in.modelMemo
	inputsLen, savedSymSeq := len(in.inputs), in.symSeq
	saMark := len(in.specAssumes)
	var results [2]armResult
	restore := func() {
		in.undoTo(mark)
		in.inputs = in.inputs[:inputsLen]
		in.symSeq = savedSymSeq
		in.specAssumes = in.specAssumes[:saMark]
		g.stack = g.stack[:depth]
		fr.block = B
		fr.prev = savedPrev
		fr.pc = savedPC
		fr.defers = append(fr.defers[:0:0], savedDefers...)
		in.pc = in.pc[:pcLen]
		in.model, in.modelMemo = savedModel, savedMemo
		fr.hasPendRet = false
		fr.pendRet = nil
	}
	finish := func() {
		in.specDepth--
		in.specFrame = prevSpecFrame
		in.journalOn = wasJournal
	}
	objMark := in.objSeq
	defer func() {
		if r := recover(); r != nil {
			switch r.(type) {
			case mergeAbort, goPanicSig, pathEnd, unsupportedErr:
				if ma, isMA := r.(mergeAbort); !isMA || ma.why != "nested merge failed" {
					in.mergeFail[x]++
				}
				if in.verbose {
					fmt.Fprintf(os.Stderr, "  merge abort at %s in %s: %v\n", in.prog.Fset.Position(x.Pos()), fr.fn, r)
				}
				restore()
				finish()
				in.stats.MergeAborts++
				ok = false
				return
			}
			finish()
			panic(r)
		}
	}()
	for arm := 0; arm < 2; arm++ {
		cond := c
		if arm == 1 {
			cond = in.tt.Not(c)
		}
		if in.model != nil && !in.evalModel(cond) {
			in.model = nil
		}
		in.pc = append(in.pc, cond)
		in.jump(fr, B.Succs[arm])
		var res armResult
		for {
			top := g.top()
			if top == fr && fr.hasPendRet {
				// a nested merge in this frame already produced the merged return value
				res.hasRet = true
				res.ret = fr.pendRet
				break
			}
			if top == fr {
				if J != nil && fr.block == J && fr.pc == in.phiCount(J) {
					res.prevBlk = fr.prev
					break
				}
				if J == nil {
					if ret, isRet := fr.block.Instrs[fr.pc].(*ssa.Return); isRet {
						res.hasRet = true
						switch len(ret.Results) {
						case 0:
						case 1:
							res.ret = in.get(fr, ret.Results[0])
						default:
							t := make(TupleV, len(ret.Results))
							for i, r := range ret.Results {
								t[i] = in.get(fr, r)
							}
							res.ret = t
						}
						break
					}
				}
			}
			if len(g.stack) < depth {
				panic(mergeAbort{"frame left"})
			}
			if g.blocked || g.done {
				panic(mergeAbort{"blocked in arm"})
			}
			in.step(g)
		}
		// collect writes since mark
		res.regs = map[int]Value{}
		res.cells = map[*Object]map[int]Value{}
		res.maps = map[*MapV][]mapEntry{}
		for i := mark; i < len(in.journal); i++ {
			e := &in.journal[i]
			switch e.kind {
			case 0:
				m := res.cells[e.obj]
				if m == nil {
					m = map[int]Value{}
					res.cells[e.obj] = m
				}
				m[e.idx] = e.obj.cells[e.idx]
			case 1:
				res.maps[e.m] = e.m.entries
			case 2:
				if e.fr == fr {
					res.regs[e.idx] = fr.regs[e.idx]
				}
			}
		}
		if len(fr.defers) != len(savedDefers) && J != nil {
			panic(mergeAbort{"defers changed"})
		}
		res.assumes = append([]*Term(nil), in.specAssumes[saMark:]...)
		results[arm] = res
		restore()
	}
	// merge
	a, b := results[0], results[1]
	type cellW struct {
		o *Object
		i int
		v Value
	}
	var cellWrites []cellW
	merged := func(va, vb Value) Value {
		m, ok := in.mergeVal(c, va, vb)
		if !ok {
			panic(mergeAbort{"unmergeable values"})
		}
		return m
	}
	for o, m := range a.cells {
		for i, va := range m {
			vb := o.cells[i]
			if mb, ok := b.cells[o]; ok {
				if v2, ok := mb[i]; ok {
					vb = v2
				}
			}
			if o.id > objMark {
				cellWrites = append(cellWrites, cellW{o, i, va})
				continue
			}
			cellWrites = append(cellWrites, cellW{o, i, merged(va, vb)})
		}
	}
	for o, m := range b.cells {
		for i, vb := range m {
			if ma, ok := a.cells[o]; ok {
				if _, ok := ma[i]; ok {
					continue
				}
			}
			if o.id > objMark {
				cellWrites = append(cellWrites, cellW{o, i, vb})
				continue
			}
			cellWrites = append(cellWrites, cellW{o, i, merged(o.cells[i], vb)})
		}
	}
	if len(a.maps) > 0 || len(b.maps) > 0 {
		panic(mergeAbort{"map mutation in arm"})
	}
	// Only the phi registers of J can be live after the join (SSA dominance):
	// everything else defined inside an arm is dead there.
	regWrites := map[int]Value{}
	if J != nil {
		for _, ins := range J.Instrs {
			phi, ok := ins.(*ssa.Phi)
			if !ok {
				break
			}
			i := fr.info.idx[phi]
			va, oka := a.regs[i]
			vb, okb := b.regs[i]
			if !oka || !okb {
				panic(mergeAbort{"phi not written in both arms"})
			}
			regWrites[i] = merged(va, vb)
		}
		// values defined in blocks that dominate J (loop-carried phis and everything computed on the
		// way to the branch, re-executed by an arm that went around an enclosing loop) are live after J too
		need := func(i int) bool {
			d := fr.info.defBlk[i]
			return d != nil && d != J && d.Dominates(J)
		}
		for i, va := range a.regs {
			if _, done := regWrites[i]; done || !need(i) {
				continue
			}
			vb, okb := b.regs[i]
			if !okb {
				vb = fr.regs[i]
			}
			regWrites[i] = merged(va, vb)
		}
		for i, vb := range b.regs {
			if _, done := regWrites[i]; done || !need(i) {
				continue
			}
			if _, oka := a.regs[i]; oka {
				continue
			}
			regWrites[i] = merged(fr.regs[i], vb)
		}
	}
	var ret Value
	if J == nil {
		if !a.hasRet || !b.hasRet {
			panic(mergeAbort{"no return"})
		}
		if a.ret != nil || b.ret != nil {
			ret = in.mergeRet(c, a.ret, b.ret)
		}
	}
	// commit
	finish()
	for _, w := range cellWrites {
		in.setCell(w.o, w.i, w.v)
	}
	for i, v := range regWrites {
		in.setReg(fr, i, v)
	}
	for arm, list := range [2][]*Term{a.assumes, b.assumes} {
		guard := in.tt.Not(c)
		if arm == 1 {
			guard = c
		}
		for _, e := range list {
			in.noteAssume(in.tt.Or(guard, e))
			in.addPC(in.tt.Or(guard, e))
		}
	}
	in.stats.Merges++
	if J == nil {
		fr.defers = nil
		if prevSpecFrame == fr && in.specDepth > 0 {
			// an enclosing merge of the same frame collects the result
			fr.pendRet = ret
			fr.hasPendRet = true
			return true
		}
		in.finishReturn(g, fr, ret)
		return true
	}
	fr.prev = a.prevBlk
	fr.block = J
	fr.pc = in.phiCount(J)
	return true
}

func (in *Interp) mergeRet(c *Term, a, b Value) Value {
	ta, oka := a.(TupleV)
	tb, okb := b.(TupleV)
	if oka && okb && len(ta) == len(tb) {
		out := make(TupleV, len(ta))
		for i := range ta {
			m, ok := in.mergeVal(c, ta[i], tb[i])
			if !ok {
				panic(mergeAbort{"unmergeable result"})
			}
			out[i] = m
		}
		return out
	}
	m, ok := in.mergeVal(c, a, b)
	if !ok {
		panic(mergeAbort{"unmergeable result"})
	}
	return m
}

func (in *Interp) phiCount(b *ssa.BasicBlock) int {
	n := 0
	for _, ins := range b.Instrs {
		if _, ok := ins.(*ssa.Phi); !ok {
			break
		}
		n++
	}
	return n
}

// ---------- violations ----------

func (in *Interp) reportViolation(kind, msg string, mech bool) {
	v := Violation{Kind: kind, Msg: msg, Mechanism: mech}
	v.Decisions = append([]int(nil), in.taken...)
	if g := in.cur; g != nil {
		for i := len(g.stack) - 1; i >= 0 && len(v.Stack) < 12; i-- {
			f := g.stack[i]
			pos := ""
			if f.block != nil && f.pc > 0 && f.pc <= len(f.block.Instrs) {
				pos = in.prog.Fset.Position(f.block.Instrs[f.pc-1].Pos()).String()
			}
			v.Stack = append(v.Stack, f.fn.String()+" "+pos)
		}
	}
	if kind != "assert" {
		// concrete witness: any model of the path condition
		if res, model := in.sol.CheckModel(in.pc, in.allSyms()); res == Sat {
			v.Inputs = in.modelInputs(model)
		} else if len(in.pc) == 0 {
			v.Inputs = in.modelInputs(map[string]uint64{})
		}
	}
	in.stats.Violations = append(in.stats.Violations, v)
}

// modelInputs fills concrete input values from a model.
func (in *Interp) modelInputs(model map[string]uint64) []Input {
	var out []Input
	for _, r := range in.inputs {
		if r.kind == "choice" {
			out = append(out, Input{Kind: "choice", Val: uint64(r.val), Src: r.src, Label: r.label})
			continue
		}
		out = append(out, Input{Kind: "sym", Name: r.sym.name, W: int(r.sym.w), Val: model[r.sym.name], Src: r.src, Label: r.label})
	}
	return out
}

func (in *Interp) freshSym(w uint8, src, label string) *Term {
	return in.freshSymSuffix(w, src, label, "")
}

func (in *Interp) freshSymSuffix(w uint8, src, label, suffix string) *Term {
	if in.concreteMode {
		for in.concPos < len(in.concrete) && in.concrete[in.concPos].Kind != "sym" {
			in.concPos++
		}
		if in.concPos >= len(in.concrete) {
			panic(pathEnd{kind: "unsupported", msg: "concrete trace exhausted"})
		}
		v := in.concrete[in.concPos].Val
		in.concPos++
		if w == 0 {
			return in.tt.Bool(v != 0)
		}
		return in.tt.Const(w, v)
	}
	if in.specDepth > 0 {
		// an input drawn inside one arm of a merged branch would not line up with a native replay
		panic(mergeAbort{why: "fresh input inside a speculative arm"})
	}
	in.symSeq++
	name := fmt.Sprintf("s%d_w%d%s", in.symSeq, w, suffix)
	t := in.tt.Sym(name, w)
	in.inputs = append(in.inputs, inputRec{kind: "sym", sym: t, src: src, label: label})
	return t
}

func (in *Interp) allSyms() []*Term {
	var out []*Term
	for _, r := range in.inputs {
		if r.kind == "sym" {
			out = append(out, r.sym)
		}
	}
	return out
}

// checkAssert decides an assertion under the current path condition.
func (in *Interp) checkAssert(c *Term, msg string, mech bool) {
	in.stats.Asserts++
	if c.IsTrue() {
		in.stats.AssertsHeld++
		return
	}
	q := append(in.pc[:len(in.pc):len(in.pc)], in.tt.Not(c))
	if nb := symBits(q); nb > in.stats.SymBitsAtAssert {
		in.stats.SymBitsAtAssert = nb
	}
	res, model := in.sol.CheckModel(q, in.allSyms())
	switch res {
	case Unsat:
		in.stats.AssertsHeld++
		in.addPC(c)
	case Unknown:
		in.stats.Unknown++
		in.stats.Unsupported["solver unknown at assert: "+msg]++
		panic(pathEnd{kind: "unsupported", msg: "solver unknown at assertion " + msg})
	case Sat:
		if in.specDepth > 0 {
			panic(mergeAbort{"violation in arm"})
		}
		kind := "assert"
		in.reportViolation(kind, msg, mech)
		v := &in.stats.Violations[len(in.stats.Violations)-1]
		v.Inputs = in.modelInputs(model)
		if mech {
			// mechanism assertions do not end the path
			in.addPC(c)
			if !in.feasible(in.tt.True) {
				panic(pathEnd{kind: "violation", msg: msg})
			}
			return
		}
		panic(pathEnd{kind: "violation", msg: msg})
	}
}

func symBits(ts []*Term) int {
	n := 0
	for _, s := range collectSyms(ts) {
		w := int(s.w)
		if w == 0 {
			w = 1
		}
		n += w
	}
	return n
}

func (in *Interp) posOf(fr *Frame) string {
	if fr == nil || fr.block == nil || fr.pc == 0 {
		return ""
	}
	return in.prog.Fset.Position(fr.block.Instrs[fr.pc-1].Pos()).String()
}

var _ = token.NoPos
var _ = strings.Join

// profSteps (VERIF_PROF=1): executed SSA instructions per function, printed at exit by main.
var profSteps map[string]int64
