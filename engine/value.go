package main

import (
	"fmt"
	"go/types"
	"strings"

	"golang.org/x/tools/go/ssa"
)

// Value is one of:
//   *Term            scalar int/bool
//   FloatV           concrete float
//   *StrV            string
//   PtrV             pointer into an Object's cells
//   SliceV           slice header
//   IfaceV           interface value
//   *MapV            map
//   *ChanV           channel
//   *FuncV           function / closure
//   AggV             struct/array/tuple, flattened by field (nested AggV allowed per field)
//   nil              lazily zero
type Value interface{}

type FloatV float64

type ComplexV complex128

type StrV struct {
	conc  string
	sym   []*Term // used when isSym
	isSym bool
}

func concStr(s string) *StrV { return &StrV{conc: s} }

func (s *StrV) Len() int {
	if s.isSym {
		return len(s.sym)
	}
	return len(s.conc)
}

func (s *StrV) At(tt *TermTable, i int) *Term {
	if s.isSym {
		return s.sym[i]
	}
	return tt.Const(8, uint64(s.conc[i]))
}

func (s *StrV) Terms(tt *TermTable) []*Term {
	if s.isSym {
		return s.sym
	}
	out := make([]*Term, len(s.conc))
	for i := 0; i < len(s.conc); i++ {
		out[i] = tt.Const(8, uint64(s.conc[i]))
	}
	return out
}

func strFromTerms(ts []*Term) *StrV {
	allc := true
	for _, t := range ts {
		if !t.IsConst() {
			allc = false
			break
		}
	}
	if allc {
		b := make([]byte, len(ts))
		for i, t := range ts {
			b[i] = byte(t.cv)
		}
		return &StrV{conc: string(b)}
	}
	cp := make([]*Term, len(ts))
	copy(cp, ts)
	return &StrV{sym: cp, isSym: true}
}

// Object is a block of memory cells.
type Object struct {
	id    int
	cells []Value
	et    types.Type // element type hint (for lazily zero cells)
	note  string
	host  interface{} // opaque host object
}

type PtrV struct {
	obj *Object
	off int
	// symbolic element index: address = off + sym*stride, sym in [0,n)
	sym    *Term
	stride int
	n      int
}

func (p PtrV) IsNil() bool { return p.obj == nil }

type SliceV struct {
	obj *Object
	off int // in cells
	len int // in elements
	cap int
	esz int // cells per element
}

type IfaceV struct {
	typ types.Type // nil => nil interface
	val Value
}

type mapEntry struct {
	key Value
	val Value
}

type MapV struct {
	id      int
	entries []mapEntry
	kt, vt  types.Type
}

type ChanV struct {
	id     int
	buf    []Value
	cap    int
	closed bool
	// waiting senders for unbuffered/full channels
	sendq []*sendWait
	recvq []*Goroutine
	et    types.Type
}

type sendWait struct {
	g    *Goroutine
	val  Value
	done bool
	vc   vclock // clock carried by the value
	ack  vclock // receiver's clock at the receive (rendezvous edge)
}

type FuncV struct {
	fn       *ssa.Function
	bindings []Value
	builtin  string                                        // name of builtin / intrinsic
	native   func(in *Interp, args []Value) (Value, bool) // optional native closure
	recv     Value                                         // bound receiver for native
	noIntr   bool                                          // skip the intrinsic table (intrinsic declined)
}

type AggV []Value

// ---------- layout ----------

func (in *Interp) cellsOf(t types.Type) int {
	switch u := t.Underlying().(type) {
	case *types.Struct:
		if n, ok := in.sizeCache[t]; ok {
			return n
		}
		n := 0
		for i := 0; i < u.NumFields(); i++ {
			n += in.cellsOf(u.Field(i).Type())
		}
		in.sizeCache[t] = n
		return n
	case *types.Array:
		return int(u.Len()) * in.cellsOf(u.Elem())
	}
	return 1
}

func (in *Interp) fieldOff(st *types.Struct, idx int) int {
	n := 0
	for i := 0; i < idx; i++ {
		n += in.cellsOf(st.Field(i).Type())
	}
	return n
}

func widthOf(t types.Type) (w uint8, signed bool, ok bool) {
	b, isb := t.Underlying().(*types.Basic)
	if !isb {
		return 0, false, false
	}
	switch b.Kind() {
	case types.Bool, types.UntypedBool:
		return 0, false, true
	case types.Int8:
		return 8, true, true
	case types.Int16:
		return 16, true, true
	case types.Int32, types.UntypedRune:
		return 32, true, true
	case types.Int64, types.Int, types.UntypedInt:
		return 64, true, true
	case types.Uint8:
		return 8, false, true
	case types.Uint16:
		return 16, false, true
	case types.Uint32:
		return 32, false, true
	case types.Uint64, types.Uint, types.Uintptr:
		return 64, false, true
	}
	return 0, false, false
}

// zero returns the zero value of t as a register value (aggregates as AggV of
// flattened cells).
func (in *Interp) zero(t types.Type) Value {
	switch u := t.Underlying().(type) {
	case *types.Basic:
		if w, _, ok := widthOf(t); ok {
			if w == 0 {
				return in.tt.False
			}
			return in.tt.Const(w, 0)
		}
		switch u.Kind() {
		case types.Float32, types.Float64, types.UntypedFloat:
			return FloatV(0)
		case types.String, types.UntypedString:
			return concStr("")
		case types.UnsafePointer:
			return PtrV{}
		case types.Complex128, types.Complex64:
			return ComplexV(0)
		case types.UntypedNil:
			return nil
		}
	case *types.Pointer:
		return PtrV{}
	case *types.Slice:
		return SliceV{esz: in.cellsOf(u.Elem())}
	case *types.Interface:
		return IfaceV{}
	case *types.Map:
		return (*MapV)(nil)
	case *types.Chan:
		return (*ChanV)(nil)
	case *types.Signature:
		return (*FuncV)(nil)
	case *types.Struct, *types.Array:
		n := in.cellsOf(t)
		a := make(AggV, n)
		in.fillZero(a, t)
		return a
	case *types.Tuple:
		a := make(AggV, u.Len())
		for i := 0; i < u.Len(); i++ {
			a[i] = in.zero(u.At(i).Type())
		}
		return a
	}
	panic(unsupported("zero of " + t.String()))
}

// fillZero writes flattened zero cells for type t into dst.
func (in *Interp) fillZero(dst []Value, t types.Type) {
	switch u := t.Underlying().(type) {
	case *types.Struct:
		o := 0
		for i := 0; i < u.NumFields(); i++ {
			ft := u.Field(i).Type()
			n := in.cellsOf(ft)
			in.fillZero(dst[o:o+n], ft)
			o += n
		}
	case *types.Array:
		n := in.cellsOf(u.Elem())
		if int(u.Len()) > 0 {
			if n == 1 {
				z := in.zero(u.Elem())
				for i := range dst {
					dst[i] = z
				}
				return
			}
			for i := 0; i < int(u.Len()); i++ {
				in.fillZero(dst[i*n:(i+1)*n], u.Elem())
			}
		}
	default:
		dst[0] = in.zero(t)
	}
}

func (in *Interp) newObject(n int, note string) *Object {
	in.objSeq++
	return &Object{id: in.objSeq, cells: make([]Value, n), note: note}
}

func (in *Interp) allocType(t types.Type, note string) *Object {
	n := in.cellsOf(t)
	o := in.newObject(n, note)
	if n > 0 {
		in.fillZero(o.cells, t)
	}
	return o
}

// ---------- journaled memory ----------

type jEntry struct {
	kind  uint8 // 0 cell, 1 map entries, 2 frame register, 3 generic undo func
	obj   *Object
	idx   int
	old   Value
	m     *MapV
	oldEn []mapEntry
	fr    *Frame
	undo  func()
}

func (in *Interp) setCell(o *Object, i int, v Value) {
	if in.journalOn {
		in.journal = append(in.journal, jEntry{kind: 0, obj: o, idx: i, old: o.cells[i]})
	}
	o.cells[i] = v
}

func (in *Interp) setReg(fr *Frame, i int, v Value) {
	if in.specDepth > 0 {
		in.journal = append(in.journal, jEntry{kind: 2, fr: fr, idx: i, old: fr.regs[i]})
	}
	fr.regs[i] = v
}

func (in *Interp) journalMap(m *MapV) {
	if in.journalOn {
		in.journal = append(in.journal, jEntry{kind: 1, m: m, oldEn: m.entries})
		// copy on write
		ne := make([]mapEntry, len(m.entries), len(m.entries)+1)
		copy(ne, m.entries)
		m.entries = ne
	}
}

func (in *Interp) journalUndo(f func()) {
	if in.journalOn {
		in.journal = append(in.journal, jEntry{kind: 3, undo: f})
	}
}

func (in *Interp) undoTo(mark int) {
	for i := len(in.journal) - 1; i >= mark; i-- {
		e := &in.journal[i]
		switch e.kind {
		case 0:
			e.obj.cells[e.idx] = e.old
		case 1:
			e.m.entries = e.oldEn
		case 2:
			e.fr.regs[e.idx] = e.old
		case 3:
			e.undo()
		}
	}
	in.journal = in.journal[:mark]
}

// ---------- load / store through pointers ----------

func (in *Interp) load(p PtrV, t types.Type) Value {
	if p.obj == nil {
		in.goPanic("runtime error: invalid memory address or nil pointer dereference")
	}
	n := in.cellsOf(t)
	if p.sym == nil {
		if _, agg := t.Underlying().(*types.Struct); agg {
			return in.loadAgg(p.obj, p.off, n)
		}
		if _, agg := t.Underlying().(*types.Array); agg {
			return in.loadAgg(p.obj, p.off, n)
		}
		if n == 0 {
			return AggV{}
		}
		if p.off < 0 || p.off >= len(p.obj.cells) {
			panic(unsupported(fmt.Sprintf("load out of object bounds off=%d len=%d (%s)", p.off, len(p.obj.cells), p.obj.note)))
		}
		v := p.obj.cells[p.off]
		if v == nil {
			v = in.zero(t)
		}
		return v
	}
	// symbolic index: ite chain over candidates
	var res Value
	for i := p.n - 1; i >= 0; i-- {
		q := PtrV{obj: p.obj, off: p.off + i*p.stride}
		v := in.load(q, t)
		if res == nil {
			res = v
			continue
		}
		c := in.tt.Eq(p.sym, in.tt.Const(p.sym.w, uint64(i)))
		m, ok := in.mergeVal(c, v, res)
		if !ok {
			panic(unsupported("symbolic-index load of non-mergeable values"))
		}
		res = m
	}
	return res
}

func (in *Interp) loadAgg(o *Object, off, n int) Value {
	if off+n > len(o.cells) {
		panic(fmt.Sprintf("loadAgg beyond object: off=%d n=%d cells=%d note=%s", off, n, len(o.cells), o.note))
	}
	a := make(AggV, n)
	copy(a, o.cells[off:off+n])
	return a
}

func (in *Interp) store(p PtrV, t types.Type, v Value) {
	if p.obj == nil {
		in.goPanic("runtime error: invalid memory address or nil pointer dereference")
	}
	if p.sym == nil {
		if a, ok := v.(AggV); ok {
			if _, isTuple := t.Underlying().(*types.Tuple); !isTuple {
				for i, c := range a {
					in.setCell(p.obj, p.off+i, c)
				}
				return
			}
		}
		if in.cellsOf(t) == 0 {
			return
		}
		in.setCell(p.obj, p.off, v)
		return
	}
	for i := 0; i < p.n; i++ {
		q := PtrV{obj: p.obj, off: p.off + i*p.stride}
		old := in.load(q, t)
		c := in.tt.Eq(p.sym, in.tt.Const(p.sym.w, uint64(i)))
		m, ok := in.mergeVal(c, v, old)
		if !ok {
			panic(unsupported("symbolic-index store of non-mergeable values"))
		}
		in.store(q, t, m)
	}
}

// mergeVal builds ite(c, a, b) over arbitrary values when possible.
func (in *Interp) mergeVal(c *Term, a, b Value) (Value, bool) {
	if c.IsTrue() {
		return a, true
	}
	if c.IsFalse() {
		return b, true
	}
	switch x := a.(type) {
	case *Term:
		y, ok := b.(*Term)
		if !ok {
			if b == nil {
				y = in.tt.Const(x.w, 0)
				if x.w == 0 {
					y = in.tt.False
				}
			} else {
				return nil, false
			}
		}
		if x.w != y.w {
			return nil, false
		}
		return in.tt.Ite(c, x, y), true
	case *StrV:
		y, ok := b.(*StrV)
		if !ok {
			if b == nil && x.Len() == 0 {
				return x, true
			}
			return nil, false
		}
		if x.Len() != y.Len() {
			return nil, false
		}
		if !x.isSym && !y.isSym && x.conc == y.conc {
			return x, true
		}
		ts := make([]*Term, x.Len())
		for i := range ts {
			ts[i] = in.tt.Ite(c, x.At(in.tt, i), y.At(in.tt, i))
		}
		return strFromTerms(ts), true
	case AggV:
		y, ok := b.(AggV)
		if !ok || len(x) != len(y) {
			return nil, false
		}
		out := make(AggV, len(x))
		for i := range x {
			m, ok := in.mergeVal(c, x[i], y[i])
			if !ok {
				return nil, false
			}
			out[i] = m
		}
		return out, true
	case PtrV:
		y, ok := b.(PtrV)
		if !ok {
			if b == nil && x.obj == nil {
				return x, true
			}
			return nil, false
		}
		if x.obj == y.obj && x.off == y.off && x.sym == y.sym {
			return x, true
		}
		return nil, false
	case SliceV:
		y, ok := b.(SliceV)
		if !ok {
			if b == nil && x.obj == nil {
				return x, true
			}
			return nil, false
		}
		if x.obj == y.obj && x.off == y.off && x.len == y.len && x.cap == y.cap {
			return x, true
		}
		return nil, false
	case IfaceV:
		y, ok := b.(IfaceV)
		if !ok {
			if b == nil && x.typ == nil {
				return x, true
			}
			return nil, false
		}
		if x.typ == nil && y.typ == nil {
			return x, true
		}
		if x.typ == nil || y.typ == nil || !types.Identical(x.typ, y.typ) {
			return nil, false
		}
		m, ok := in.mergeVal(c, x.val, y.val)
		if !ok {
			return nil, false
		}
		return IfaceV{typ: x.typ, val: m}, true
	case FloatV:
		if y, ok := b.(FloatV); ok && x == y {
			return x, true
		}
		return nil, false
	case *MapV:
		if y, ok := b.(*MapV); ok && x == y {
			return x, true
		}
		return nil, false
	case *ChanV:
		if y, ok := b.(*ChanV); ok && x == y {
			return x, true
		}
		return nil, false
	case *FuncV:
		if y, ok := b.(*FuncV); ok && x == y {
			return x, true
		}
		return nil, false
	case nil:
		if b == nil {
			return nil, true
		}
		// swap: ite(c, nil, b) = ite(!c, b, nil)
		return in.mergeVal(in.tt.Not(c), b, a)
	}
	return nil, false
}

// ---------- diagnostics ----------

type unsupportedErr struct{ msg string }

func unsupported(msg string) unsupportedErr { return unsupportedErr{msg} }

func (in *Interp) valStr(v Value) string {
	switch x := v.(type) {
	case nil:
		return "<zero>"
	case *Term:
		return x.String()
	case *StrV:
		if x.isSym {
			return fmt.Sprintf("symstr[%d]", len(x.sym))
		}
		return fmt.Sprintf("%q", x.conc)
	case PtrV:
		if x.obj == nil {
			return "nilptr"
		}
		return fmt.Sprintf("&obj%d+%d", x.obj.id, x.off)
	case SliceV:
		return fmt.Sprintf("slice(obj,%d,len=%d)", x.off, x.len)
	case IfaceV:
		if x.typ == nil {
			return "nil-iface"
		}
		return "iface(" + x.typ.String() + ":" + in.valStr(x.val) + ")"
	case AggV:
		var parts []string
		for i, e := range x {
			if i > 8 {
				parts = append(parts, "...")
				break
			}
			parts = append(parts, in.valStr(e))
		}
		return "{" + strings.Join(parts, ",") + "}"
	}
	return fmt.Sprintf("%T", v)
}
