package main

import (
	"fmt"
	"go/token"
	"go/types"
	"math"
	"unicode/utf8"

	"golang.org/x/tools/go/ssa"
)

// ---------- binary / unary operators ----------

func (in *Interp) binop(op token.Token, a, b Value, ta, tb types.Type) Value {
	tt := in.tt
	switch x := a.(type) {
	case *Term:
		y, ok := b.(*Term)
		if !ok {
			panic(unsupported(fmt.Sprintf("binop %s on term and %T", op, b)))
		}
		w, signed, _ := widthOf(ta)
		if x.w == 0 { // bools
			switch op {
			case token.EQL:
				return tt.Eq(x, y)
			case token.NEQ:
				return tt.Not(tt.Eq(x, y))
			case token.AND, token.LAND:
				return tt.And(x, y)
			case token.OR, token.LOR:
				return tt.Or(x, y)
			}
			panic(unsupported("bool binop " + op.String()))
		}
		_ = w
		switch op {
		case token.ADD:
			return tt.Bin(OpAdd, x, y)
		case token.SUB:
			return tt.Bin(OpSub, x, y)
		case token.MUL:
			return tt.Bin(OpMul, x, y)
		case token.QUO, token.REM:
			in.checkDivZero(y)
			if signed {
				if op == token.QUO {
					return tt.Bin(OpSDiv, x, y)
				}
				return tt.Bin(OpSRem, x, y)
			}
			if op == token.QUO {
				return tt.Bin(OpUDiv, x, y)
			}
			return tt.Bin(OpURem, x, y)
		case token.AND:
			return tt.Bin(OpBvAnd, x, y)
		case token.OR:
			return tt.Bin(OpBvOr, x, y)
		case token.XOR:
			return tt.Bin(OpBvXor, x, y)
		case token.AND_NOT:
			return tt.Bin(OpBvAnd, x, tt.BvNot(y))
		case token.SHL, token.SHR:
			return in.shift(op, x, y, signed, tb)
		case token.EQL:
			return tt.Eq(x, y)
		case token.NEQ:
			return tt.Not(tt.Eq(x, y))
		case token.LSS:
			if signed {
				return tt.Cmp(OpSlt, x, y)
			}
			return tt.Cmp(OpUlt, x, y)
		case token.LEQ:
			if signed {
				return tt.Cmp(OpSle, x, y)
			}
			return tt.Cmp(OpUle, x, y)
		case token.GTR:
			if signed {
				return tt.Cmp(OpSlt, y, x)
			}
			return tt.Cmp(OpUlt, y, x)
		case token.GEQ:
			if signed {
				return tt.Cmp(OpSle, y, x)
			}
			return tt.Cmp(OpUle, y, x)
		}
	case FloatV:
		y := b.(FloatV)
		switch op {
		case token.ADD:
			return x + y
		case token.SUB:
			return x - y
		case token.MUL:
			return x * y
		case token.QUO:
			return x / y
		case token.EQL:
			return tt.Bool(x == y)
		case token.NEQ:
			return tt.Bool(x != y)
		case token.LSS:
			return tt.Bool(x < y)
		case token.LEQ:
			return tt.Bool(x <= y)
		case token.GTR:
			return tt.Bool(x > y)
		case token.GEQ:
			return tt.Bool(x >= y)
		}
	case *StrV:
		y := b.(*StrV)
		switch op {
		case token.ADD:
			return in.strConcat(x, y)
		case token.EQL:
			return in.strEq(x, y)
		case token.NEQ:
			return tt.Not(in.strEq(x, y))
		case token.LSS:
			return in.strLess(x, y, false)
		case token.LEQ:
			return in.strLess(x, y, true)
		case token.GTR:
			return in.strLess(y, x, false)
		case token.GEQ:
			return in.strLess(y, x, true)
		}
	}
	switch op {
	case token.EQL:
		return in.valEq(a, b)
	case token.NEQ:
		return tt.Not(in.valEq(a, b))
	}
	panic(unsupported(fmt.Sprintf("binop %s on %T", op, a)))
}

func (in *Interp) checkDivZero(y *Term) {
	if y.IsConst() {
		if y.cv == 0 {
			in.goPanic("runtime error: integer divide by zero")
		}
		return
	}
	z := in.tt.Eq(y, in.tt.Const(y.w, 0))
	if in.feasible(z) {
		if !in.feasible(in.tt.Not(z)) {
			in.goPanic("runtime error: integer divide by zero")
		}
		if in.decide(2, nil) == 1 {
			in.addPC(z)
			in.goPanic("runtime error: integer divide by zero")
		}
	}
	in.addPC(in.tt.Not(z))
}

func (in *Interp) shift(op token.Token, x, y *Term, signed bool, ty types.Type) Value {
	tt := in.tt
	_, ysigned, _ := widthOf(ty)
	if ysigned {
		neg := tt.Cmp(OpSlt, y, tt.Const(y.w, 0))
		if neg.IsTrue() {
			in.goPanic("runtime error: negative shift amount")
		}
		if !neg.IsFalse() && in.feasible(neg) {
			if in.decide(2, nil) == 1 {
				in.addPC(neg)
				in.goPanic("runtime error: negative shift amount")
			}
			in.addPC(tt.Not(neg))
		}
	}
	w := x.w
	var big *Term // count >= width
	var cnt *Term
	if y.w > w {
		big = tt.Cmp(OpUle, tt.Const(y.w, uint64(w)), y)
		cnt = tt.Extract(y, w)
	} else {
		cnt = tt.ZExt(y, w)
		big = tt.False // bvshl semantics already give 0 / sign for >= w
	}
	var r *Term
	switch {
	case op == token.SHL:
		r = tt.Bin(OpShl, x, cnt)
		if !big.IsFalse() {
			r = tt.Ite(big, tt.Const(w, 0), r)
		}
	case signed:
		r = tt.Bin(OpAShr, x, cnt)
		if !big.IsFalse() {
			r = tt.Ite(big, tt.Bin(OpAShr, x, tt.Const(w, uint64(w-1))), r)
		}
	default:
		r = tt.Bin(OpLShr, x, cnt)
		if !big.IsFalse() {
			r = tt.Ite(big, tt.Const(w, 0), r)
		}
	}
	return r
}

func (in *Interp) strConcat(x, y *StrV) *StrV {
	if !x.isSym && !y.isSym {
		return concStr(x.conc + y.conc)
	}
	if x.Len() == 0 {
		return y
	}
	if y.Len() == 0 {
		return x
	}
	ts := append(append([]*Term{}, x.Terms(in.tt)...), y.Terms(in.tt)...)
	return strFromTerms(ts)
}

func (in *Interp) strEq(x, y *StrV) *Term {
	if x.Len() != y.Len() {
		return in.tt.False
	}
	if !x.isSym && !y.isSym {
		return in.tt.Bool(x.conc == y.conc)
	}
	r := in.tt.True
	for i := x.Len() - 1; i >= 0; i-- {
		r = in.tt.And(in.tt.Eq(x.At(in.tt, i), y.At(in.tt, i)), r)
	}
	return r
}

// strLess: lexicographic x < y (or <= when orEq).
func (in *Interp) strLess(x, y *StrV, orEq bool) *Term {
	tt := in.tt
	if !x.isSym && !y.isSym {
		if orEq {
			return tt.Bool(x.conc <= y.conc)
		}
		return tt.Bool(x.conc < y.conc)
	}
	n := x.Len()
	if y.Len() < n {
		n = y.Len()
	}
	// result when common prefix equal
	var tail *Term
	if x.Len() < y.Len() {
		tail = tt.True
	} else if x.Len() == y.Len() {
		tail = tt.Bool(orEq)
	} else {
		tail = tt.False
	}
	r := tail
	for i := n - 1; i >= 0; i-- {
		a, b := x.At(tt, i), y.At(tt, i)
		r = tt.Ite(tt.Eq(a, b), r, tt.Cmp(OpUlt, a, b))
	}
	return r
}

// valEq: structural equality as a Bool term.
func (in *Interp) valEq(a, b Value) *Term {
	tt := in.tt
	switch x := a.(type) {
	case nil:
		return tt.Bool(in.isZeroish(b))
	case *Term:
		if y, ok := b.(*Term); ok {
			return tt.Eq(x, y)
		}
	case FloatV:
		if y, ok := b.(FloatV); ok {
			return tt.Bool(x == y)
		}
	case *StrV:
		if y, ok := b.(*StrV); ok {
			return in.strEq(x, y)
		}
	case PtrV:
		switch y := b.(type) {
		case PtrV:
			if x.sym != nil || y.sym != nil {
				panic(unsupported("compare symbolic pointers"))
			}
			return tt.Bool(x.obj == y.obj && (x.obj == nil || x.off == y.off))
		case nil:
			return tt.Bool(x.obj == nil)
		}
	case SliceV:
		// only comparison with nil is legal
		return tt.Bool(x.obj == nil && in.isZeroish(b))
	case *MapV:
		if y, ok := b.(*MapV); ok {
			return tt.Bool(x == y)
		}
		return tt.Bool(x == nil)
	case *ChanV:
		if y, ok := b.(*ChanV); ok {
			return tt.Bool(x == y)
		}
		return tt.Bool(x == nil)
	case *FuncV:
		if y, ok := b.(*FuncV); ok {
			return tt.Bool(x == nil && y == nil)
		}
		return tt.Bool(x == nil)
	case IfaceV:
		y, ok := b.(IfaceV)
		if !ok {
			if b == nil {
				return tt.Bool(x.typ == nil)
			}
			break
		}
		if x.typ == nil || y.typ == nil {
			return tt.Bool(x.typ == nil && y.typ == nil)
		}
		if !types.Identical(x.typ, y.typ) {
			return tt.False
		}
		if !types.Comparable(x.typ) {
			in.goPanic("runtime error: comparing uncomparable type " + x.typ.String())
		}
		return in.valEq(x.val, y.val)
	case AggV:
		y, ok := b.(AggV)
		if !ok || len(x) != len(y) {
			break
		}
		r := tt.True
		for i := len(x) - 1; i >= 0; i-- {
			r = tt.And(in.valEq(x[i], y[i]), r)
		}
		return r
	}
	panic(unsupported(fmt.Sprintf("valEq %T %T", a, b)))
}

func (in *Interp) isZeroish(v Value) bool {
	switch x := v.(type) {
	case nil:
		return true
	case PtrV:
		return x.obj == nil
	case SliceV:
		return x.obj == nil
	case *MapV:
		return x == nil
	case *ChanV:
		return x == nil
	case *FuncV:
		return x == nil
	case IfaceV:
		return x.typ == nil
	}
	return false
}

func (in *Interp) unop(g *Goroutine, fr *Frame, x *ssa.UnOp) {
	v := in.get(fr, x.X)
	switch x.Op {
	case token.MUL: // load
		p, ok := v.(PtrV)
		if !ok {
			panic(unsupported(fmt.Sprintf("load through %T", v)))
		}
		in.raceMem(g, p, in.cellsOf(x.Type()), false, x)
		in.set(fr, x, in.load(p, x.Type()))
	case token.NOT:
		in.set(fr, x, in.tt.Not(v.(*Term)))
	case token.SUB:
		switch t := v.(type) {
		case *Term:
			in.set(fr, x, in.tt.Neg(t))
		case FloatV:
			in.set(fr, x, -t)
		default:
			panic(unsupported("neg"))
		}
	case token.XOR:
		in.set(fr, x, in.tt.BvNot(v.(*Term)))
	case token.ARROW:
		in.chanRecv(g, fr, x, v.(*ChanV), x.CommaOk)
	default:
		panic(unsupported("unop " + x.Op.String()))
	}
}

// ---------- conversions ----------

func (in *Interp) convert(v Value, from, to types.Type) Value {
	tt := in.tt
	fu, tu := from.Underlying(), to.Underlying()
	switch x := v.(type) {
	case *Term:
		if tw, _, ok := widthOf(to); ok {
			_, fsigned, _ := widthOf(from)
			if tw == 0 || x.w == 0 {
				return x
			}
			if tw <= x.w {
				return tt.Extract(x, tw)
			}
			if fsigned {
				return tt.SExt(x, tw)
			}
			return tt.ZExt(x, tw)
		}
		if tb, ok := tu.(*types.Basic); ok {
			switch tb.Kind() {
			case types.Float32, types.Float64:
				if !x.IsConst() {
					panic(unsupported("symbolic int to float"))
				}
				_, fsigned, _ := widthOf(from)
				if fsigned {
					return FloatV(float64(x.SVal()))
				}
				return FloatV(float64(x.cv))
			case types.String:
				// string(rune)
				if !x.IsConst() {
					panic(unsupported("string(symbolic rune)"))
				}
				return concStr(string(rune(x.SVal())))
			case types.UnsafePointer:
				if x.IsConst() && x.cv == 0 {
					return PtrV{}
				}
				panic(unsupported("uintptr to unsafe.Pointer"))
			}
		}
	case FloatV:
		if tw, signed, ok := widthOf(to); ok && tw > 0 {
			if signed {
				return tt.Const(tw, uint64(int64(float64(x))))
			}
			return tt.Const(tw, uint64(float64(x)))
		}
		if tb, ok := tu.(*types.Basic); ok {
			switch tb.Kind() {
			case types.Float32:
				return FloatV(float64(float32(x)))
			case types.Float64:
				return x
			}
		}
	case *StrV:
		if ts, ok := tu.(*types.Slice); ok {
			eb, _ := ts.Elem().Underlying().(*types.Basic)
			if eb != nil && eb.Kind() == types.Uint8 {
				n := x.Len()
				o := in.newObject(n, "[]byte(string)")
				for i := 0; i < n; i++ {
					o.cells[i] = x.At(tt, i)
				}
				return SliceV{obj: o, len: n, cap: n, esz: 1}
			}
			if eb != nil && eb.Kind() == types.Int32 {
				if x.isSym {
					panic(unsupported("[]rune(symbolic string)"))
				}
				rs := []rune(x.conc)
				o := in.newObject(len(rs), "[]rune(string)")
				for i, r := range rs {
					o.cells[i] = tt.Const(32, uint64(r))
				}
				return SliceV{obj: o, len: len(rs), cap: len(rs), esz: 1}
			}
		}
		if _, ok := tu.(*types.Basic); ok {
			return x
		}
	case SliceV:
		if tb, ok := tu.(*types.Basic); ok && tb.Kind() == types.String {
			fs := fu.(*types.Slice)
			eb, _ := fs.Elem().Underlying().(*types.Basic)
			if eb != nil && eb.Kind() == types.Uint8 {
				ts := make([]*Term, x.len)
				for i := 0; i < x.len; i++ {
					c := x.obj.cells[x.off+i]
					ts[i] = c.(*Term)
				}
				return strFromTerms(ts)
			}
			if eb != nil && eb.Kind() == types.Int32 {
				rs := make([]rune, x.len)
				for i := range rs {
					c := x.obj.cells[x.off+i].(*Term)
					if !c.IsConst() {
						panic(unsupported("string([]rune) symbolic"))
					}
					rs[i] = rune(c.SVal())
				}
				return concStr(string(rs))
			}
		}
		if _, ok := tu.(*types.Slice); ok {
			return x
		}
	case PtrV:
		// pointer <-> unsafe.Pointer
		if _, ok := tu.(*types.Pointer); ok {
			return x
		}
		if tb, ok := tu.(*types.Basic); ok && tb.Kind() == types.UnsafePointer {
			return x
		}
		if tb, ok := tu.(*types.Basic); ok && tb.Kind() == types.Uintptr {
			if x.obj == nil {
				return tt.Const(64, 0)
			}
			return tt.Const(64, uint64(0x10000000+x.obj.id*0x10000+x.off))
		}
	case nil:
		return in.zero(to)
	}
	panic(unsupported(fmt.Sprintf("convert %T from %s to %s", v, from, to)))
}

// ---------- fields, indexing ----------

func (in *Interp) fieldOf(v Value, t types.Type, idx int) Value {
	st := t.Underlying().(*types.Struct)
	a := v.(AggV)
	off := in.fieldOff(st, idx)
	ft := st.Field(idx).Type()
	n := in.cellsOf(ft)
	switch ft.Underlying().(type) {
	case *types.Struct, *types.Array:
		out := make(AggV, n)
		copy(out, a[off:off+n])
		return out
	}
	return a[off]
}

// boundsCheck forks on idx out of [0,n) and returns a concrete index when
// idx is concrete, otherwise -1 with the path constrained to in-range.
func (in *Interp) boundsCheck(idx *Term, signed bool, n int, what string) int {
	tt := in.tt
	if idx.IsConst() {
		var i int64
		if signed {
			i = idx.SVal()
		} else {
			if idx.cv > math.MaxInt64 {
				i = -1
			} else {
				i = int64(idx.cv)
			}
		}
		if i < 0 || i >= int64(n) {
			in.goPanic(fmt.Sprintf("runtime error: index out of range [%d] with length %d", i, n))
		}
		return int(i)
	}
	var inr *Term
	if idx.w < 64 && uint64(n) > mask(idx.w) {
		inr = tt.True
		if signed {
			inr = tt.Cmp(OpSle, tt.Const(idx.w, 0), idx)
		}
	} else {
		inr = tt.Cmp(OpUlt, idx, tt.Const(idx.w, uint64(n)))
	}
	if n == 0 {
		inr = tt.False
	}
	if inr.IsTrue() {
		return -1
	}
	tf, ff := in.feasible2(inr)
	switch {
	case tf && !ff:
		in.addPC(inr)
	case !tf:
		in.addPC(tt.Not(inr))
		in.goPanic(fmt.Sprintf("runtime error: index out of range [symbolic] with length %d (%s)", n, what))
	default:
		if in.decide(2, nil) == 1 {
			in.addPC(tt.Not(inr))
			in.goPanic(fmt.Sprintf("runtime error: index out of range [symbolic] with length %d (%s)", n, what))
		}
		in.addPC(inr)
	}
	return -1
}

func (in *Interp) indexAddr(base Value, bt types.Type, idx *Term, it types.Type) Value {
	_, signed, _ := widthOf(it)
	switch b := base.(type) {
	case SliceV:
		i := in.boundsCheck(idx, signed, b.len, "slice")
		if i >= 0 {
			return PtrV{obj: b.obj, off: b.off + i*b.esz}
		}
		return PtrV{obj: b.obj, off: b.off, sym: idx, stride: b.esz, n: b.len}
	case PtrV:
		if b.obj == nil {
			in.goPanic("runtime error: invalid memory address or nil pointer dereference")
		}
		at := bt.Underlying().(*types.Pointer).Elem().Underlying().(*types.Array)
		esz := in.cellsOf(at.Elem())
		i := in.boundsCheck(idx, signed, int(at.Len()), "array")
		if b.sym != nil {
			panic(unsupported("nested symbolic index"))
		}
		if i >= 0 {
			return PtrV{obj: b.obj, off: b.off + i*esz}
		}
		return PtrV{obj: b.obj, off: b.off, sym: idx, stride: esz, n: int(at.Len())}
	}
	panic(unsupported(fmt.Sprintf("indexAddr on %T", base)))
}

// indexVal: Index instruction on array values (and, for generics, others).
func (in *Interp) indexVal(base Value, bt types.Type, idx *Term, it types.Type) Value {
	_, signed, _ := widthOf(it)
	switch b := base.(type) {
	case AggV:
		at := bt.Underlying().(*types.Array)
		esz := in.cellsOf(at.Elem())
		i := in.boundsCheck(idx, signed, int(at.Len()), "array value")
		get := func(k int) Value {
			switch at.Elem().Underlying().(type) {
			case *types.Struct, *types.Array:
				out := make(AggV, esz)
				copy(out, b[k*esz:(k+1)*esz])
				return out
			}
			return b[k*esz]
		}
		if i >= 0 {
			return get(i)
		}
		var res Value
		for k := int(at.Len()) - 1; k >= 0; k-- {
			v := get(k)
			if res == nil {
				res = v
				continue
			}
			m, ok := in.mergeVal(in.tt.Eq(idx, in.tt.Const(idx.w, uint64(k))), v, res)
			if !ok {
				panic(unsupported("symbolic index of unmergeable array value"))
			}
			res = m
		}
		return res
	case *StrV:
		return in.strIndex(b, idx, signed)
	}
	panic(unsupported(fmt.Sprintf("index on %T", base)))
}

func (in *Interp) strIndex(s *StrV, idx *Term, signed bool) Value {
	i := in.boundsCheck(idx, signed, s.Len(), "string")
	if i >= 0 {
		return s.At(in.tt, i)
	}
	var res *Term
	for k := s.Len() - 1; k >= 0; k-- {
		v := s.At(in.tt, k)
		if res == nil {
			res = v
			continue
		}
		res = in.tt.Ite(in.tt.Eq(idx, in.tt.Const(idx.w, uint64(k))), v, res)
	}
	return res
}

func (in *Interp) lookup(fr *Frame, x *ssa.Lookup) {
	base := in.get(fr, x.X)
	switch b := base.(type) {
	case *StrV:
		_, signed, _ := widthOf(x.Index.Type())
		in.set(fr, x, in.strIndex(b, in.get(fr, x.Index).(*Term), signed))
	case *MapV:
		mt := x.X.Type().Underlying().(*types.Map)
		v, ok := in.mapGet(b, in.get(fr, x.Index))
		if v == nil {
			v = in.zero(mt.Elem())
		}
		if x.CommaOk {
			in.set(fr, x, TupleV{v, in.tt.Bool(ok)})
		} else {
			in.set(fr, x, v)
		}
	default:
		panic(unsupported(fmt.Sprintf("lookup on %T", base)))
	}
}

// ---------- maps ----------

// mapFind returns the index of the entry equal to key, forking on symbolic equality.
func (in *Interp) mapFind(m *MapV, key Value) int {
	if m == nil {
		return -1
	}
	for i := range m.entries {
		eq := in.valEq(m.entries[i].key, key)
		if eq.IsTrue() {
			return i
		}
		if eq.IsFalse() {
			continue
		}
		tf, ff := in.feasible2(eq)
		switch {
		case tf && !ff:
			in.addPC(eq)
			return i
		case !tf:
			in.addPC(in.tt.Not(eq))
			continue
		}
		if in.decide(2, nil) == 0 {
			in.addPC(eq)
			return i
		}
		in.addPC(in.tt.Not(eq))
	}
	return -1
}

func (in *Interp) mapGet(m *MapV, key Value) (Value, bool) {
	i := in.mapFind(m, key)
	if i < 0 {
		return nil, false
	}
	return m.entries[i].val, true
}

func (in *Interp) mapSet(m *MapV, key, val Value) {
	i := in.mapFind(m, key)
	in.journalMap(m)
	if i >= 0 {
		m.entries[i].val = val
		return
	}
	m.entries = append(m.entries, mapEntry{key, val})
}

func (in *Interp) mapDelete(m *MapV, key Value) {
	if m == nil {
		return
	}
	i := in.mapFind(m, key)
	if i < 0 {
		return
	}
	in.journalMap(m)
	ne := make([]mapEntry, 0, len(m.entries))
	ne = append(ne, m.entries[:i]...)
	ne = append(ne, m.entries[i+1:]...)
	m.entries = ne
}

// ---------- range / next ----------

type rangeIter struct {
	isMap bool
	m     *MapV
	keys  []Value
	pos   int
	s     *StrV
}

func (in *Interp) makeRange(v Value, t types.Type) Value {
	switch x := v.(type) {
	case *MapV:
		it := &rangeIter{isMap: true, m: x}
		if x != nil {
			for _, e := range x.entries {
				it.keys = append(it.keys, e.key)
			}
		}
		return it
	case *StrV:
		return &rangeIter{s: x}
	}
	panic(unsupported(fmt.Sprintf("range over %T", v)))
}

func (in *Interp) next(fr *Frame, x *ssa.Next) {
	it := in.get(fr, x.Iter).(*rangeIter)
	tt := in.tt
	if in.specDepth > 0 {
		p := it.pos
		in.journal = append(in.journal, jEntry{kind: 3, undo: func() { it.pos = p }})
	} else if in.journalOn {
		p := it.pos
		in.journalUndo(func() { it.pos = p })
	}
	if x.IsString {
		s := it.s
		if it.pos >= s.Len() {
			in.set(fr, x, TupleV{tt.False, tt.Const(64, 0), tt.Const(32, 0)})
			return
		}
		if !s.isSym {
			r, size := utf8.DecodeRuneInString(s.conc[it.pos:])
			in.set(fr, x, TupleV{tt.True, tt.Const(64, uint64(it.pos)), tt.Const(32, uint64(r))})
			it.pos += size
			return
		}
		b := s.sym[it.pos]
		ascii := tt.Cmp(OpUlt, b, tt.Const(8, 0x80))
		if ascii.IsTrue() || in.concBool(ascii, "range string ascii") {
			in.set(fr, x, TupleV{tt.True, tt.Const(64, uint64(it.pos)), tt.ZExt(b, 32)})
			it.pos++
			return
		}
		// non-ASCII lead byte: run the real decoder on the symbolic tail
		pkg := in.prog.ImportedPackage("unicode/utf8")
		if pkg == nil {
			panic(unsupported("range over symbolic non-ASCII string: unicode/utf8 not loaded"))
		}
		dec := pkg.Func("DecodeRuneInString")
		end := min(s.Len(), it.pos+4)
		r := in.callSync(in.cur, &FuncV{fn: dec}, []Value{strFromTerms(s.sym[it.pos:end])}).(TupleV)
		size := in.concretizeInt(r[1].(*Term), 1, 4, "rune size")
		in.set(fr, x, TupleV{tt.True, tt.Const(64, uint64(it.pos)), r[0]})
		it.pos += size
		return
	}
	// map
	for it.pos < len(it.keys) {
		k := it.keys[it.pos]
		it.pos++
		// still present?
		if it.m != nil {
			for _, e := range it.m.entries {
				if eq := in.valEq(e.key, k); eq.IsTrue() {
					in.set(fr, x, TupleV{tt.True, k, e.val})
					return
				}
			}
		}
	}
	mt := x.Iter.(*ssa.Range).X.Type().Underlying().(*types.Map)
	in.set(fr, x, TupleV{tt.False, in.zero(mt.Key()), in.zero(mt.Elem())})
}

func (in *Interp) note(s string) {
	for _, n := range in.pathNotes {
		if n == s {
			return
		}
	}
	in.pathNotes = append(in.pathNotes, s)
}

// ---------- slices ----------

// concretizeInt forks over the feasible values of t in [lo,hi].
func (in *Interp) concretizeInt(t *Term, lo, hi int, what string) int {
	if t.IsConst() {
		v := t.SVal()
		if t.w < 64 {
			v = int64(t.cv)
		}
		return int(v)
	}
	tt := in.tt
	if in.pos < len(in.prefix) || in.concreteMode {
		// replay: decision value is the offset from lo
		d := in.decide(hi-lo+1, nil)
		v := lo + d
		in.addPC(tt.Eq(t, tt.Const(t.w, uint64(v))))
		return v
	}
	// enumerate the feasible values with the solver: one query per value (+1)
	vals := map[int]bool{}
	var inr *Term
	if t.w == 64 {
		inr = tt.And(tt.Cmp(OpSle, tt.Const(64, uint64(int64(lo))), t), tt.Cmp(OpSle, t, tt.Const(64, uint64(int64(hi)))))
	} else {
		inr = tt.Cmp(OpUle, t, tt.Const(t.w, uint64(hi)))
		if lo > 0 {
			inr = tt.And(inr, tt.Cmp(OpUle, tt.Const(t.w, uint64(lo)), t))
		}
	}
	extra := []*Term{inr}
	for {
		q := append(in.pc[:len(in.pc):len(in.pc)], extra...)
		res, model := in.sol.CheckModel(q, collectSyms(q))
		if res == Unknown {
			in.stats.Unknown++
			panic(pathEnd{kind: "unsupported", msg: "solver unknown while concretizing " + what})
		}
		if res != Sat {
			break
		}
		raw := tt.Eval(t, model, map[int]uint64{})
		v := int(int64(raw))
		if t.w < 64 {
			v = int(raw)
		}
		if v < lo || v > hi || vals[v] {
			panic(unsupported("concretize: inconsistent model value"))
		}
		vals[v] = true
		extra = append(extra, tt.Not(tt.Eq(t, tt.Const(t.w, uint64(v)))))
		if len(vals) > 256 {
			panic(pathEnd{kind: "unwind", msg: "concretize " + what + ": more than 256 feasible values"})
		}
	}
	d := in.decide(hi-lo+1, func(i int) bool { return vals[lo+i] })
	v := lo + d
	in.addPC(tt.Eq(t, tt.Const(t.w, uint64(v))))
	return v
}

func (in *Interp) sliceBound(t *Term, cp int) int {
	if t.IsConst() {
		return in.concretizeInt(t, 0, cp, "slice bound")
	}
	tt := in.tt
	var inr *Term
	if t.w == 64 {
		inr = tt.And(tt.Cmp(OpSle, tt.Const(64, 0), t), tt.Cmp(OpSle, t, tt.Const(64, uint64(cp))))
	} else {
		inr = tt.Cmp(OpUle, t, tt.Const(t.w, uint64(cp)))
	}
	tf, ff := in.feasible2(inr)
	switch {
	case !tf:
		in.addPC(tt.Not(inr))
		in.goPanic(fmt.Sprintf("runtime error: slice bounds out of range [symbolic] with capacity %d", cp))
	case tf && ff:
		if in.decide(2, nil) == 1 {
			in.addPC(tt.Not(inr))
			in.goPanic(fmt.Sprintf("runtime error: slice bounds out of range [symbolic] with capacity %d", cp))
		}
	}
	in.addPC(inr)
	return in.concretizeInt(t, 0, cp, "slice bound")
}

func (in *Interp) sliceOp(fr *Frame, x *ssa.Slice) Value {
	base := in.get(fr, x.X)
	var ln, cp, off, esz int
	var obj *Object
	var str *StrV
	switch b := base.(type) {
	case SliceV:
		obj, off, ln, cp, esz = b.obj, b.off, b.len, b.cap, b.esz
	case *StrV:
		str = b
		ln, cp = b.Len(), b.Len()
	case PtrV:
		if b.obj == nil {
			in.goPanic("runtime error: slice of nil array pointer")
		}
		at := x.X.Type().Underlying().(*types.Pointer).Elem().Underlying().(*types.Array)
		esz = in.cellsOf(at.Elem())
		obj, off, ln, cp = b.obj, b.off, int(at.Len()), int(at.Len())
	default:
		panic(unsupported(fmt.Sprintf("slice of %T", base)))
	}
	lo, hi, mx := 0, ln, cp
	if x.Low != nil {
		lo = in.sliceBound(in.get(fr, x.Low).(*Term), cp)
	}
	if x.High != nil {
		hi = in.sliceBound(in.get(fr, x.High).(*Term), cp)
	}
	if x.Max != nil {
		mx = in.sliceBound(in.get(fr, x.Max).(*Term), cp)
	}
	if str != nil {
		if lo < 0 || hi < lo || hi > ln {
			in.goPanic(fmt.Sprintf("runtime error: slice bounds out of range [%d:%d] with length %d", lo, hi, ln))
		}
		if !str.isSym {
			return concStr(str.conc[lo:hi])
		}
		return strFromTerms(str.sym[lo:hi])
	}
	if lo < 0 || hi < lo || mx < hi || mx > cp {
		in.goPanic(fmt.Sprintf("runtime error: slice bounds out of range [%d:%d:%d] with capacity %d", lo, hi, mx, cp))
	}
	if obj == nil {
		return SliceV{esz: esz}
	}
	return SliceV{obj: obj, off: off + lo*esz, len: hi - lo, cap: mx - lo, esz: esz}
}

// ---------- type assertions ----------

func (in *Interp) typeAssert(fr *Frame, x *ssa.TypeAssert) {
	v := in.get(fr, x.X)
	iv, _ := v.(IfaceV)
	at := x.AssertedType
	ok := false
	var res Value
	if iv.typ != nil {
		if types.IsInterface(at) {
			if it, isI := at.Underlying().(*types.Interface); isI {
				ok = types.Implements(iv.typ, it)
				if !ok && !it.IsMethodSet() {
					ok = types.Satisfies(iv.typ, it)
				}
			}
			if ok {
				res = iv
			}
		} else {
			ok = types.Identical(iv.typ, at)
			if ok {
				res = iv.val
			}
		}
	}
	if x.CommaOk {
		if !ok {
			res = in.zero(at)
		}
		in.set(fr, x, TupleV{res, in.tt.Bool(ok)})
		return
	}
	if !ok {
		tn := "nil"
		if iv.typ != nil {
			tn = iv.typ.String()
		}
		in.goPanic(fmt.Sprintf("interface conversion: interface is %s, not %s", tn, at))
	}
	in.set(fr, x, res)
}
