package main

// A happens-before data-race detector for the goroutines the engine interleaves
// (vector clocks in the style of FastTrack / the Go race detector).  It is off unless a
// harness calls vrt.RaceDetect(true).  Every SSA load/store of a heap cell and every map
// operation executed by a harness-visible goroutine is checked against the previous
// conflicting accesses of the same location; two accesses race when neither happens
// before the other according to the synchronisation the engine models: go statements,
// mutexes, RW mutexes, channels (message passing, capacity and rendezvous edges, close),
// WaitGroup, Once, sync/atomic, sync.Map.  Because the check is on the happens-before
// relation, not on the actual interleaving, a race is reported even when the explored
// schedule happened to serialise the two accesses.
//
// Soundness direction: the detector may MISS races (accesses inside speculative merge arms,
// at symbolic indices and inside builtins such as copy/append are not recorded; modelled
// primitives add at least the edges of the real ones), it must not invent them.

import (
	"fmt"
	"go/token"
	"sort"
	"strings"

	"golang.org/x/tools/go/ssa"
)

type vclock []int32

func (v vclock) get(i int) int32 {
	if i < len(v) {
		return v[i]
	}
	return 0
}

func (v vclock) clone() vclock { return append(vclock(nil), v...) }

func (v *vclock) join(o vclock) {
	for len(*v) < len(o) {
		*v = append(*v, 0)
	}
	for i, c := range o {
		if c > (*v)[i] {
			(*v)[i] = c
		}
	}
}

func (v *vclock) set(i int, c int32) {
	for len(*v) <= i {
		*v = append(*v, 0)
	}
	(*v)[i] = c
}

type raceKey struct {
	o    *Object
	off  int
	kind uint8 // 0 plain sync object at (o,off); 1 RWMutex readers; 2 atomic cell
}

type accRec struct {
	g   int
	c   int32
	pos token.Pos
	fn  *ssa.Function
}

type shadow struct {
	w    accRec
	hasW bool
	rd   []accRec
}

type cellKey struct {
	o   *Object
	off int
}

// chanMeta is the per-path race metadata of a channel: clocks carried by the buffered values,
// the receive history (capacity edges) and the close event.
type chanMeta struct {
	bufVC   []vclock
	recvVCs []vclock
	nSent   int
	closeVC vclock
}

func (in *Interp) chanMeta(ch *ChanV) *chanMeta {
	if in.race.chans == nil {
		in.race.chans = map[*ChanV]*chanMeta{}
	}
	m := in.race.chans[ch]
	if m == nil {
		m = &chanMeta{}
		in.race.chans[ch] = m
	}
	return m
}

// raceBufPush / raceBufPop keep the clocks of buffered values aligned with ch.buf.
func (in *Interp) raceBufPush(ch *ChanV, v vclock) {
	if !in.race.on {
		return
	}
	m := in.chanMeta(ch)
	for len(m.bufVC) < len(ch.buf) {
		m.bufVC = append(m.bufVC, nil)
	}
	m.bufVC = append(m.bufVC, v)
}

func (in *Interp) raceBufPop(ch *ChanV) vclock {
	if !in.race.on {
		return nil
	}
	m := in.chanMeta(ch)
	if len(m.bufVC) == 0 {
		return nil
	}
	v := m.bufVC[0]
	m.bufVC = m.bufVC[1:]
	return v
}

type raceState struct {
	on       bool
	chans    map[*ChanV]*chanMeta
	sync     map[any]vclock
	cells    map[cellKey]*shadow
	maps     map[*MapV]*shadow
	reported map[string]bool
	lastRecv vclock // VC carried by the value chanTryRecv just delivered
	lastOK   bool
}

func (in *Interp) raceReset() {
	in.race = raceState{}
}

func (in *Interp) raceEnable(on bool) {
	in.race.on = on
	if on && in.race.sync == nil {
		in.race.sync = map[any]vclock{}
		in.race.cells = map[cellKey]*shadow{}
		in.race.maps = map[*MapV]*shadow{}
		in.race.reported = map[string]bool{}
	}
}

func (in *Interp) raceActive(g *Goroutine) bool {
	return in.race.on && g != nil && g.id >= 0 && in.specDepth == 0
}

func (g *Goroutine) tick() { g.vc.set(g.vi, g.vc.get(g.vi)+1) }

// raceFork: the go statement happens before the start of the new goroutine.
func (in *Interp) raceFork(parent, child *Goroutine) {
	// vector-clock index: position in in.gs (goroutine ids are global sequence numbers)
	child.vi = len(in.gs)
	if parent != nil && parent.id >= 0 {
		child.vc = parent.vc.clone()
		parent.tick()
	}
	child.vc.set(child.vi, 1)
}

func (in *Interp) raceAcquire(g *Goroutine, key any) {
	if !in.raceActive(g) {
		return
	}
	if v, ok := in.race.sync[key]; ok {
		g.vc.join(v)
	}
}

// raceRelease publishes g's clock on key (overwriting: the key is owned, e.g. a mutex).
func (in *Interp) raceRelease(g *Goroutine, key any) {
	if !in.raceActive(g) {
		return
	}
	in.race.sync[key] = g.vc.clone()
	g.tick()
}

// raceReleaseMerge publishes g's clock on key, keeping what others published (WaitGroup, readers).
func (in *Interp) raceReleaseMerge(g *Goroutine, key any) {
	if !in.raceActive(g) {
		return
	}
	v := in.race.sync[key]
	v.join(g.vc)
	in.race.sync[key] = v
	g.tick()
}

// raceAcqRel: an atomic / sequentially consistent operation on key.
func (in *Interp) raceAcqRel(g *Goroutine, key any) {
	if !in.raceActive(g) {
		return
	}
	in.raceAcquire(g, key)
	v := in.race.sync[key]
	v.join(g.vc)
	in.race.sync[key] = v
	g.tick()
}

// raceJoinGoroutine: g learns everything other has done so far (conservative extra edge).
func (in *Interp) raceJoinGoroutine(g, other *Goroutine) {
	if !in.raceActive(g) || other == nil || other == g {
		return
	}
	g.vc.join(other.vc)
}

func (in *Interp) posStr(a accRec) string {
	s := in.prog.Fset.Position(a.pos).String()
	if a.fn != nil {
		s = a.fn.String() + " " + s
	}
	return s
}

func (in *Interp) raceReport(what string, prev accRec, prevWrite bool, cur accRec, curWrite bool) {
	k := func(w bool) string {
		if w {
			return "write"
		}
		return "read"
	}
	if in.modelAcc(prev) && in.modelAcc(cur) {
		// both accesses are inside harness / environment-model code (overlay files): the real
		// counterparts (os.File, KV stores, ...) are goroutine-safe by contract
		return
	}
	a := k(prevWrite) + " at " + in.posStr(prev)
	b := k(curWrite) + " at " + in.posStr(cur)
	pair := []string{a, b}
	sort.Strings(pair)
	msg := fmt.Sprintf("data race on %s: %s / %s", what, pair[0], pair[1])
	if in.race.reported[msg] {
		return
	}
	in.race.reported[msg] = true
	in.reportViolation("race", msg, false)
}

func (in *Interp) raceCheck(sh *shadow, g *Goroutine, write bool, what func() string, pos token.Pos, fn *ssa.Function) {
	cur := accRec{g: g.vi, c: g.vc.get(g.vi), pos: pos, fn: fn}
	if sh.hasW && sh.w.g != g.vi && sh.w.c > g.vc.get(sh.w.g) {
		in.raceReport(what(), sh.w, true, cur, write)
	}
	if write {
		for _, r := range sh.rd {
			if r.g != g.vi && r.c > g.vc.get(r.g) {
				in.raceReport(what(), r, false, cur, true)
			}
		}
		sh.w, sh.hasW = cur, true
		sh.rd = sh.rd[:0]
		return
	}
	for i := range sh.rd {
		if sh.rd[i].g == g.vi {
			sh.rd[i] = cur
			return
		}
	}
	sh.rd = append(sh.rd, cur)
}

func (in *Interp) raceMem(g *Goroutine, p PtrV, n int, write bool, ins ssa.Instruction) {
	if !in.raceActive(g) || len(in.gs) < 2 || p.obj == nil || p.sym != nil {
		return
	}
	if n < 1 {
		n = 1
	}
	if n > 64 {
		n = 64
	}
	for i := 0; i < n; i++ {
		k := cellKey{p.obj, p.off + i}
		sh := in.race.cells[k]
		if sh == nil {
			sh = &shadow{}
			in.race.cells[k] = sh
		}
		off := p.off + i
		in.raceCheck(sh, g, write, func() string {
			note := p.obj.note
			if note == "" {
				note = "object"
			}
			return fmt.Sprintf("%s[%d]", note, off)
		}, ins.Pos(), ins.Parent())
	}
}

func (in *Interp) raceMap(g *Goroutine, m *MapV, write bool, ins ssa.Instruction) {
	if !in.raceActive(g) || len(in.gs) < 2 || m == nil {
		return
	}
	sh := in.race.maps[m]
	if sh == nil {
		sh = &shadow{}
		in.race.maps[m] = sh
	}
	in.raceCheck(sh, g, write, func() string { return "a map" }, ins.Pos(), ins.Parent())
}

// ---- channels ----

// raceSend is called when g deposits a value in ch (buffer or wait queue); it returns the clock the
// message carries.
func (in *Interp) raceSend(g *Goroutine, ch *ChanV) vclock {
	if !in.raceActive(g) {
		return nil
	}
	m := in.chanMeta(ch)
	idx := m.nSent
	m.nSent++
	if ch.cap > 0 && idx >= ch.cap && idx-ch.cap < len(m.recvVCs) {
		// the (idx-cap)-th receive happens before this send completes
		g.vc.join(m.recvVCs[idx-ch.cap])
	}
	if ch.cap == 0 {
		// rendezvous: the receive happens before the send completes; receivers already waiting on
		// the channel have done everything they will do before that receive
		for _, o := range in.gs {
			if o == g || !o.blocked || o.done {
				continue
			}
			if w := in.gwaits[o]; w != nil {
				for _, c := range w.recvOn {
					if c == ch {
						g.vc.join(o.vc)
					}
				}
			}
		}
	}
	v := g.vc.clone()
	g.tick()
	return v
}

// raceRecvDone is called after g took a value (carrying msg) from ch.
func (in *Interp) raceRecvDone(g *Goroutine, ch *ChanV, msg vclock, closedEmpty bool) {
	if !in.raceActive(g) {
		return
	}
	m := in.chanMeta(ch)
	if closedEmpty {
		g.vc.join(m.closeVC)
		return
	}
	g.vc.join(msg)
	m.recvVCs = append(m.recvVCs, g.vc.clone())
	g.tick()
}

func (in *Interp) curInstr(g *Goroutine) ssa.Instruction {
	fr := g.top()
	if fr == nil || fr.block == nil || fr.pc < 1 || fr.pc > len(fr.block.Instrs) {
		return nil
	}
	return fr.block.Instrs[fr.pc-1]
}

func (in *Interp) modelAcc(a accRec) bool {
	p := a.pos
	if !p.IsValid() && a.fn != nil {
		p = a.fn.Pos()
		for f := a.fn; !p.IsValid() && f.Parent() != nil; {
			f = f.Parent()
			p = f.Pos()
		}
	}
	f := in.prog.Fset.Position(p).Filename
	return strings.Contains(f, "/zz_verif_") || strings.Contains(f, "/internal/vmodel/") || strings.Contains(f, "/internal/vrt/")
}
