#!/usr/bin/env python3
"""Assemble DESIGN.md from design-src/*.md and the last mutant sweep (seeded/results.json)."""
import json, os, glob
ROOT = os.path.dirname(os.path.dirname(os.path.abspath(__file__)))
rows = json.load(open(os.path.join(ROOT, "seeded", "results.json")))
byid = {r[0]: r for r in rows}
lines = ["| seeded change | what was changed (from its meta.json) | result | caught by |", "|---|---|---|---|"]
det = 0
for d in sorted(glob.glob(os.path.join(ROOT, "seeded", "C*-m*"))):
    sid = os.path.basename(d)
    meta = json.load(open(os.path.join(d, "meta.json")))
    summ = meta.get("summary", "").replace("|", "\\|").replace("\n", " ")
    if len(summ) > 170:
        summ = summ[:167] + "…"
    r = byid.get(sid)
    if not r:
        lines.append("| %s | %s | not run | |" % (sid, summ)); continue
    if r[1] == "DETECTED":
        det += 1
    lines.append("| %s | %s | %s | %s |" % (sid, summ, "**detected**" if r[1] == "DETECTED" else r[1], r[2].replace("|", "\\|")[:160]))
lines.append("")
lines.append("%d of %d detected by the quick-tier checks." % (det, len(rows)))
table = "\n".join(lines)
out = ""
for part in ["part1.md", "part2.md", "part3.md", "part4_head.md", "part4.md", "part5.md"]:
    out += open(os.path.join(ROOT, "design-src", part)).read()
out = out.replace("@@MUTANT_TABLE@@", table)
open(os.path.join(ROOT, "DESIGN.md"), "w").write(out)
with open(os.path.join(ROOT, "seeded", "RESULTS.md"), "w") as f:
    f.write("# Last sweep of the seeded changes (tools/mutall.py, quick tier)\n\n" + table + "\n")
print("DESIGN.md written:", len(out.splitlines()), "lines;", det, "/", len(rows), "detected")
