#!/usr/bin/env python3
"""mut.py verify <wt> <mutdir> <seed-id>   : re-confirm a seeded change in a scratch worktree and keep it under /verif/seeded/<seed-id>/
   mut.py run <seed-id> [check args]       : apply /verif/seeded/<seed-id>/patch.diff to /repo, run ./check <property>, undo
"""
import json, os, re, shutil, subprocess, sys, glob
ROOT = os.path.dirname(os.path.dirname(os.path.abspath(__file__)))
ENV = dict(os.environ, GOFLAGS="-mod=mod", GOPROXY="off")
ENV.pop("GOTOOLCHAIN", None); ENV.pop("GOSUMDB", None)

def sh(cmd, cwd, timeout=1800):
    r = subprocess.run(cmd, cwd=cwd, env=ENV, shell=isinstance(cmd, str), stdout=subprocess.PIPE, stderr=subprocess.STDOUT, text=True, timeout=timeout)
    return r.returncode, r.stdout

def verify(wt, md, sid):
    meta = json.load(open(os.path.join(md, "meta.json")))
    patch = os.path.join(md, "patch.diff")
    demos = [f for f in glob.glob(os.path.join(md, "*_test.go"))]
    pkgdir = meta.get("demo_pkg_dir", "").strip("./")
    assert demos and pkgdir, "no demo"
    sh("git checkout -- . && git clean -fdq -e _mut", wt)
    names = []
    for d in demos:
        names += re.findall(r'^func (Test\w+)\(', open(d).read(), re.M)
    run = "^(" + "|".join(names) + ")$"
    dst = [os.path.join(wt, pkgdir, "zz_mutdemo%d_test.go" % i) for i, _ in enumerate(demos)]
    def demo():
        for s, d in zip(demos, dst): shutil.copy(s, d)
        race = ["-race"] if meta.get("demo_race") else []
        rc, out = sh(["go", "test", "-vet=off", "-count=1", "-timeout", "300s"] + race + ["-run", run, "./" + pkgdir + "/"], wt)
        for d in dst: os.remove(d)
        return rc, out
    rc_clean, out_clean = demo()
    rc, out = sh(["git", "apply", patch], wt)
    if rc != 0:
        print("patch does not apply:", out); return False
    files = [l[6:] for l in open(patch).read().splitlines() if l.startswith("+++ b/")]
    rc_mut, out_mut = demo()
    pkgs = sorted(set("./" + os.path.dirname(f) + "/..." for f in files))
    # existing tests of touched packages and the main dependants
    extra = ["./pkg/blobserver/...", "./pkg/index/...", "./pkg/search/...", "./pkg/server/...", "./pkg/schema/..."]
    rc_tests, out_tests = sh(["go", "test", "-vet=off", "-count=1", "-timeout", "1200s"] + sorted(set(pkgs + extra)), wt, timeout=2400)
    sh("git checkout -- . && git clean -fdq -e _mut", wt)
    lines = out_tests.splitlines()
    fails = [l for l in lines if l.startswith("--- FAIL") or l.startswith("FAIL")]
    knownT = ("TestWriteError", "TestNonS3Endpoints", "TestS3EndpointRedirect")
    bad = [l for l in lines if l.strip().startswith("--- FAIL") and not any(k in l for k in knownT)]
    dp = [l for l in lines if l.startswith("FAIL\t") and "pkg/blobserver/s3" not in l and "pkg/blobserver/diskpacked" not in l and "[build failed]" not in l]
    dp += [l for l in lines if "[build failed]" in l]
    ok = rc_clean == 0 and rc_mut != 0 and not bad and not dp
    print("clean+demo rc=%d  mutated+demo rc=%d  existing-tests unexpected failures=%s %s" % (rc_clean, rc_mut, bad, dp))
    if not ok:
        print(out_clean[-800:] if rc_clean else "", out_mut[-300:], "\n".join(fails)[:1000])
        return False
    dstd = os.path.join(ROOT, "seeded", sid)
    os.makedirs(dstd, exist_ok=True)
    shutil.copy(patch, os.path.join(dstd, "patch.diff"))
    for d in demos: shutil.copy(d, dstd)
    meta["verified_by_me"] = {"clean_plus_demo": "pass", "mutated_plus_demo": "fail", "mutated_plus_existing_tests": "pass (go test " + " ".join(sorted(set(pkgs + extra))) + "; known offline failures ignored)"}
    json.dump(meta, open(os.path.join(dstd, "meta.json"), "w"), indent=1)
    print("kept as", dstd)
    return True

def run(sid, args):
    d = os.path.join(ROOT, "seeded", sid)
    meta = json.load(open(os.path.join(d, "meta.json")))
    pid = meta["property"]
    rc, out = sh(["git", "-C", "/repo", "status", "--porcelain"], "/repo")
    assert out.strip() == "", "/repo not clean"
    rc, out = sh(["git", "-C", "/repo", "apply", os.path.join(d, "patch.diff")], "/repo")
    assert rc == 0, out
    try:
        r = subprocess.run([os.path.join(ROOT, "check"), pid] + args, cwd=ROOT, stdout=subprocess.PIPE, stderr=subprocess.STDOUT, text=True)
        print(r.stdout[-3000:])
        print("seed %s: check exit=%d => %s" % (sid, r.returncode, "DETECTED" if r.returncode == 1 else "MISSED"))
        return r.returncode
    finally:
        sh(["git", "-C", "/repo", "checkout", "--", "."], "/repo")

if __name__ == "__main__":
    if sys.argv[1] == "verify":
        sys.exit(0 if verify(sys.argv[2], sys.argv[3], sys.argv[4]) else 1)
    sys.exit(run(sys.argv[2], sys.argv[3:]))
