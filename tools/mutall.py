#!/usr/bin/env python3
"""mutall.py [seed-id ...]: apply every seeded change to /repo in turn, run the quick check of its
property (plus the extra properties listed below), undo it, and write seeded/RESULTS.md.
Evidence of these runs goes to out/mut-evidence, never to evidence/."""
import glob, json, os, re, subprocess, sys, time
ROOT = os.path.dirname(os.path.dirname(os.path.abspath(__file__)))
REPO = os.environ.get("VERIF_REPO", "/repo")  # the official sweep runs on /repo itself
EXTRA = {"C06-m2": ["C09"], "C05-m2": ["C06", "C07"], "C06-m1": ["C07"], "C17-m2": ["C07"], "C07-m3": ["C17"], "C13-m2": ["C04"], "C04-m1": ["C13"],
         "C19-m3": ["C02"], "C12-m3": ["C01"], "C09-m1": ["C08"], "C08-m2": ["C09"]}
env = dict(os.environ, VERIF_EVIDENCE_DIR=os.path.join(ROOT, "out", "mut-evidence"))
seeds = sys.argv[1:] or sorted(os.path.basename(d.rstrip("/")) for d in glob.glob(os.path.join(ROOT, "seeded", "C*-m*/")))
rows = []
for sid in seeds:
    d = os.path.join(ROOT, "seeded", sid)
    meta = json.load(open(os.path.join(d, "meta.json")))
    props = [meta["property"]] + EXTRA.get(sid, [])
    st = subprocess.run(["git", "-C", REPO, "status", "--porcelain"], stdout=subprocess.PIPE, text=True).stdout.strip()
    assert st == "", REPO + " not clean: " + st
    r = subprocess.run(["git", "-C", REPO, "apply", os.path.join(d, "patch.diff")], stdout=subprocess.PIPE, stderr=subprocess.STDOUT, text=True)
    if r.returncode != 0:
        rows.append((sid, "PATCH-DOES-NOT-APPLY", "", r.stdout.strip()[:200])); continue
    try:
        det, notes = [], []
        for pid in props:
            t0 = time.time()
            c = subprocess.run([os.path.join(ROOT, "check"), pid, "--tier", "quick"], cwd=ROOT, env=env, stdout=subprocess.PIPE, stderr=subprocess.STDOUT, text=True)
            v = [l for l in c.stdout.splitlines() if l.startswith("VIOLATION")]
            oth = [l for l in c.stdout.splitlines() if l.startswith(("INCONCLUSIVE", "MACHINERY-BROKEN", "UNCONFIRMED", "MECHANISM-CHANGED"))]
            if c.returncode == 1:
                m = re.search(r"entry=(\S+) (.*)", v[0]) if v else None
                det.append("%s: %s \"%s\"" % (pid, m.group(1) if m else "?", (m.group(2) if m else "")[:90]))
            elif c.returncode != 0 or oth:
                notes.append("%s exit=%d %s" % (pid, c.returncode, "; ".join(o[:120] for o in oth[:2])))
            print(sid, pid, "exit", c.returncode, "%.0fs" % (time.time() - t0), flush=True)
        rows.append((sid, "DETECTED" if det else "missed", "; ".join(det), "; ".join(notes)))
    finally:
        subprocess.run(["git", "-C", REPO, "checkout", "--", "."])
    print(rows[-1], flush=True)
    with open(os.path.join(ROOT, "out", "mutall_rows.json" if sys.argv[1:] else "mutall_all.json"), "w") as f:
        json.dump(rows, f, indent=1)
