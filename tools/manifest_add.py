#!/usr/bin/env python3
import json,sys
pid,text,note,design=sys.argv[1:5]
m=json.load(open('/verif/MANIFEST.json'))
m['checks']=[c for c in m['checks'] if c['property_id']!=pid]
m['checks'].append({
  "property_id":pid,
  "quick_cmd":"./check %s --tier quick"%pid,
  "thorough_cmd":"./check %s --tier thorough"%pid,
  "evidence_file":"evidence/%s.json"%pid,
  "replay_cmd_template":"./replay %s {path}"%pid,
  "engine":"gosym",
  "level_claimed":{"category":"model_checking","text":text,"design_ref":design},
  "level_note":note,
  "technique":"bounded symbolic execution of the real Go code (go/ssa -> SMT-LIB2 bit-vectors), assertions decided by z3; counterexamples replayed against the real build"})
m['checks'].sort(key=lambda c:c['property_id'])
m['not_applicable']=[n for n in m['not_applicable'] if n['property_id']!=pid]
for e in m['engines']:
    if pid not in e['serves_properties']: e['serves_properties'].append(pid); e['serves_properties'].sort()
json.dump(m,open('/verif/MANIFEST.json','w'),indent=1)
