#!/usr/bin/env python3
"""mutpar.py <workers> seed-id ... : development sweep. Like mutall.py, but every worker applies the
seeded change to its own scratch worktree of /repo (VERIF_REPO) with its own out/evidence dirs, so
several seeds run at once and /repo is never touched. Results: /tmp/mutpar/results.json."""
import json, os, re, subprocess, sys, concurrent.futures as cf, queue
ROOT = os.path.dirname(os.path.dirname(os.path.abspath(__file__)))
sys.path.insert(0, os.path.join(ROOT, "tools"))
EXTRA = {"C06-m2": ["C09"], "C05-m2": ["C06", "C07"], "C06-m1": ["C07"], "C17-m2": ["C07"], "C07-m3": ["C17"], "C13-m2": ["C04"], "C04-m1": ["C13"],
         "C19-m3": ["C02"], "C12-m3": ["C01"], "C09-m1": ["C08"], "C08-m2": ["C09"], "C01-m9": ["C04"], "C08-m7": ["C07"], "C14-m6": ["C05"],
         "C05-m4": ["C14"], "C19-m7": ["C02"], "C06-m4": ["C09"], "C09-m7": ["C06"], "C13-m9": ["C11"], "C07-m9": ["C17"]}
nw = int(sys.argv[1]); seeds = sys.argv[2:]
base = "/tmp/mutpar"; os.makedirs(base, exist_ok=True)
wq = queue.Queue()
for k in range(nw):
    wt = "%s/wt%d" % (base, k)
    if not os.path.isdir(wt):
        subprocess.run(["git", "-C", "/repo", "worktree", "add", "--detach", wt, "HEAD"], check=True, stdout=subprocess.DEVNULL, stderr=subprocess.DEVNULL)
    wq.put(k)
def one(sid):
    k = wq.get()
    wt = "%s/wt%d" % (base, k)
    try:
        d = os.path.join(ROOT, "seeded", sid)
        meta = json.load(open(os.path.join(d, "meta.json")))
        props = [meta["property"]] + EXTRA.get(sid, [])
        subprocess.run(["git", "-C", wt, "checkout", "--", "."])
        r = subprocess.run(["git", "-C", wt, "apply", os.path.join(d, "patch.diff")], stdout=subprocess.PIPE, stderr=subprocess.STDOUT, text=True)
        if r.returncode != 0:
            return (sid, "PATCH-DOES-NOT-APPLY", "", r.stdout[:200])
        env = dict(os.environ, VERIF_REPO=wt, VERIF_OUT_DIR="%s/out%d" % (base, k), VERIF_EVIDENCE_DIR="%s/ev%d" % (base, k), VERIF_JOBS="4")
        os.makedirs(env["VERIF_EVIDENCE_DIR"], exist_ok=True)
        det, notes = [], []
        for pid in props:
            c = subprocess.run([os.path.join(ROOT, "check"), pid, "--tier", "quick"], cwd=ROOT, env=env, stdout=subprocess.PIPE, stderr=subprocess.STDOUT, text=True)
            v = [l for l in c.stdout.splitlines() if l.startswith("VIOLATION")]
            oth = [l for l in c.stdout.splitlines() if l.startswith(("INCONCLUSIVE", "MACHINERY-BROKEN", "UNCONFIRMED", "MECHANISM-CHANGED"))]
            if c.returncode == 1:
                m = re.search(r"entry=(\S+) (.*)", v[0]) if v else None
                det.append("%s: %s \"%s\"" % (pid, m.group(1) if m else "?", (m.group(2) if m else "")[:90]))
            elif c.returncode != 0 or oth:
                notes.append("%s exit=%d %s" % (pid, c.returncode, "; ".join(o[:160] for o in oth[:2])))
        return (sid, "DETECTED" if det else "missed", "; ".join(det), "; ".join(notes))
    finally:
        subprocess.run(["git", "-C", wt, "checkout", "--", "."])
        wq.put(k)
rows = []
with cf.ThreadPoolExecutor(nw) as ex:
    for row in ex.map(one, seeds):
        rows.append(row); print(row, flush=True)
        json.dump(rows, open(base + "/results.json", "w"), indent=1)
for k in range(nw):
    subprocess.run(["git", "-C", "/repo", "worktree", "remove", "--force", "%s/wt%d" % (base, k)])
